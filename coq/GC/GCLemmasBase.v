(* Basic lemmas for the collector proofs (C09): free chains, counting cells of a range,
   gc_new, gc_alloc_any, conservation of cells.  No axioms. *)
From Coq Require Import NArith List Bool Lia Permutation.
From NV Require Import Base.TMap GC.GCModel GC.GCSpec.
Import ListNotations.
Local Open Scope N_scope.

(* ---- chain / free_chain ------------------------------------------------------------ *)

Lemma chain_det nx : forall a l1, chain nx a l1 -> forall l2, chain nx a l2 -> l1 = l2.
Proof.
  induction 1 as [|a l Ha Hc IH]; intros l2 H2; inversion H2; subst; try congruence.
  f_equal. apply IH. assumption.
Qed.

Lemma chain_free_chain nx : forall a l, chain nx a l ->
  forall fuel, (length l <= fuel)%nat -> free_chain fuel nx a = Some l.
Proof.
  induction 1 as [|a l Ha Hc IH]; intros fuel Hf.
  - destruct fuel; reflexivity.
  - destruct fuel as [|k]; [simpl in Hf; lia|]. cbn [free_chain].
    destruct (N.eqb_spec a 0) as [E|E]; [contradiction|].
    rewrite IH; [reflexivity|]. simpl in Hf. lia.
Qed.

Lemma chain_set_other nx b v : forall a l, chain nx a l -> ~ In b l -> chain (tset nx b v) a l.
Proof.
  induction 1 as [|a l Ha Hc IH]; intros Hb.
  - constructor.
  - constructor; [assumption|]. rewrite tget_set_other.
    + apply IH. intro Hin. apply Hb. now right.
    + intro E. apply Hb. now left.
Qed.

Lemma chain_nonzero nx : forall a l, chain nx a l -> ~ In 0 l.
Proof.
  induction 1 as [|a l Ha Hc IH]; intros Hin; [destruct Hin|].
  destruct Hin as [E|Hin]; [congruence|auto].
Qed.

Lemma chain_head_zero nx l : chain nx 0 l -> l = [].
Proof. intros H. inversion H; subst; [reflexivity|congruence]. Qed.

Lemma chain_head_nonzero nx a l : a <> 0 -> chain nx a l ->
  exists t, l = a :: t /\ chain nx (tget nx a) t.
Proof. intros Ha H. inversion H; subst; [congruence|]. eexists; split; eauto. Qed.

Lemma NoDup_app_intro {A} (l1 l2 : list A) :
  NoDup l1 -> NoDup l2 -> (forall a, In a l1 -> ~ In a l2) -> NoDup (l1 ++ l2).
Proof.
  induction l1 as [|x l1 IH]; intros H1 H2 Hd; cbn [app]; [assumption|].
  inversion H1 as [|y l Hx Hl]; subst. constructor.
  - rewrite in_app_iff. intros [Hin|Hin]; [contradiction|]. apply (Hd x); [now left|assumption].
  - apply IH; auto. intros a Ha. apply Hd. now right.
Qed.

(* ---- counting the cells of 1..n-1 -------------------------------------------------- *)

Lemma range_list n : exists r, NoDup r /\ (forall a, In a r <-> 1 <= a < n) /\
                               N.of_nat (length r) = n - 1.
Proof.
  exists (map N.of_nat (seq 1 (N.to_nat n - 1))). split; [|split].
  - apply FinFun.Injective_map_NoDup.
    + intros x y. apply Nat2N.inj.
    + apply seq_NoDup.
  - intros a. rewrite in_map_iff. split.
    + intros (x & Hx & Hin). apply in_seq in Hin. lia.
    + intros H. exists (N.to_nat a). split; [apply N2Nat.id|]. apply in_seq. lia.
  - rewrite map_length, seq_length. lia.
Qed.

Lemma count_range l n : NoDup l -> (forall a, In a l <-> 1 <= a < n) ->
  N.of_nat (length l) = n - 1.
Proof.
  intros Hnd Hin. destruct (range_list n) as (r & Hr & Hrin & Hlen).
  rewrite <- Hlen. f_equal. apply Permutation_length. apply NoDup_Permutation; auto.
  intros a. rewrite Hin, Hrin. tauto.
Qed.

Lemma count_range_le l n : NoDup l -> (forall a, In a l -> 1 <= a < n) ->
  N.of_nat (length l) <= n - 1.
Proof.
  intros Hnd Hin. destruct (range_list n) as (r & Hr & Hrin & Hlen).
  rewrite <- Hlen. assert (length l <= length r)%nat; [|lia].
  apply NoDup_incl_length; auto. intros a Ha. apply Hrin. auto.
Qed.

(* ---- gc_new ------------------------------------------------------------------------ *)

Lemma init_next_spec : forall n i m a,
  tget (init_next n i m) a =
  if (i <=? a) && (a <? i + N.of_nat n) then a + 1 else tget m a.
Proof.
  induction n as [|k IH]; intros i m a.
  - cbn [init_next]. destruct (N.leb_spec i a), (N.ltb_spec a (i + N.of_nat 0)); cbn; try reflexivity. lia.
  - cbn [init_next]. rewrite IH, tget_set.
    destruct (N.leb_spec (i + 1) a), (N.ltb_spec a (i + 1 + N.of_nat k)),
             (N.leb_spec i a), (N.ltb_spec a (i + N.of_nat (S k))), (N.eqb_spec i a);
      cbn; subst; try reflexivity; try lia.
Qed.

Fixpoint nseq (i : N) (k : nat) : list N :=
  match k with O => [] | S k' => i :: nseq (i + 1) k' end.

Lemma nseq_in : forall k i a, In a (nseq i k) <-> i <= a < i + N.of_nat k.
Proof.
  induction k as [|k IH]; intros i a; cbn [nseq In].
  - lia.
  - rewrite IH. lia.
Qed.

Lemma nseq_nodup : forall k i, NoDup (nseq i k).
Proof.
  induction k as [|k IH]; intros i; cbn [nseq]; constructor.
  - rewrite nseq_in. lia.
  - apply IH.
Qed.

Lemma gc_new_next size a : 2 <= size ->
  tget (g_next (gc_new size)) a =
  if a =? size - 1 then 0 else if (1 <=? a) && (a <? size) then a + 1 else 0.
Proof.
  intros Hs. cbn [gc_new g_next]. rewrite tget_set.
  rewrite (N.eqb_sym (size - 1) a).
  destruct (N.eqb_spec a (size - 1)); [reflexivity|].
  rewrite init_next_spec, tget_init.
  replace (1 + N.of_nat (N.to_nat (size - 1))) with size by lia. reflexivity.
Qed.

Lemma gc_new_chain size : 2 <= size ->
  forall k i, 1 <= i -> i + N.of_nat k = size - 1 ->
  chain (g_next (gc_new size)) i (nseq i (S k)).
Proof.
  intros Hs. induction k as [|k IH]; intros i Hi Hk; cbn [nseq].
  - constructor; [lia|]. rewrite gc_new_next by assumption.
    destruct (N.eqb_spec i (size - 1)); [constructor|lia].
  - constructor; [lia|]. rewrite gc_new_next by assumption.
    destruct (N.eqb_spec i (size - 1)); [lia|].
    destruct (N.leb_spec 1 i); [|lia]. destruct (N.ltb_spec i size); [|lia]. cbn.
    apply (IH (i + 1)); lia.
Qed.

Lemma gc_new_wf : forall size, 2 <= size -> WF (gc_new size) /\ Closed (gc_new size).
Proof.
  intros size Hs. split.
  - constructor.
    + exact Hs.
    + cbn. apply tget_init.
    + intros a _. cbn. apply tget_init.
    + exists (nseq 1 (S (N.to_nat (size - 2)))). split; [|split].
      * cbn [gc_new g_free]. change (g_next _) with (g_next (gc_new size)).
        destruct (N.ltb_spec 1 size); [|lia].
        apply gc_new_chain; lia.
      * apply nseq_nodup.
      * intros a. rewrite nseq_in. unfold in_range. cbn [gc_new g_size g_obj].
        rewrite tget_init. split; [intros H; split; [lia|reflexivity]|intros [H _]; lia].
    + cbn. constructor.
    + intros a. cbn. unfold in_range, allocated. cbn. rewrite tget_init. split; [tauto|].
      intros [_ H]. congruence.
    + reflexivity.
    + intros a. cbn. apply tget_init.
  - intros a o H. cbn in H. rewrite tget_init in H. discriminate.
Qed.

(* ---- free list of a well-formed heap ----------------------------------------------- *)

Lemma wf_free_cur_disjoint g fl : WF g ->
  (forall a, In a fl <-> (in_range g a /\ tget (g_obj g) a = None)) ->
  forall a, In a fl -> ~ In a (cur_list g).
Proof.
  intros W Hfl a Ha Hc. apply Hfl in Ha. apply (wf_cur g W) in Hc.
  destruct Ha as [_ Ha]. destruct Hc as [_ Hc]. apply Hc. exact Ha.
Qed.

Lemma wf_count g fl : WF g -> NoDup fl ->
  (forall a, In a fl <-> (in_range g a /\ tget (g_obj g) a = None)) ->
  N.of_nat (length fl) + N.of_nat (length (cur_list g)) = g_size g - 1.
Proof.
  intros W Hnd Hfl.
  rewrite <- Nat2N.inj_add, <- app_length. apply count_range.
  - apply NoDup_app_intro; [assumption|apply (wf_cur_nodup g W)|].
    intros a Ha. apply (wf_free_cur_disjoint g fl W Hfl a Ha).
  - intros a. rewrite in_app_iff, Hfl, (wf_cur g W). unfold in_range, allocated.
    destruct (tget (g_obj g) a); split; intros H.
    + destruct H as [[_ H]|[H _]]; [discriminate|exact H].
    + right. split; [exact H|discriminate].
    + destruct H as [[H _]|[_ H]]; [exact H|congruence].
    + left. split; [exact H|reflexivity].
Qed.

Lemma cells_conserved : forall g, WF g ->
  exists fl, free_list g = Some fl /\
             N.of_nat (length fl) + N.of_nat (length (cur_list g)) = g_size g - 1.
Proof.
  intros g W. destruct (wf_free g W) as (fl & Hch & Hnd & Hfl).
  pose proof (wf_count g fl W Hnd Hfl) as Hcount.
  exists fl. split; [|exact Hcount].
  unfold free_list. apply chain_free_chain; [exact Hch|].
  pose proof (wf_size g W). lia.
Qed.

(* ---- gc_alloc_any ------------------------------------------------------------------ *)

Lemma alloc_inv g o g' a : gc_alloc_any g o = Some (g', a) ->
  a = g_free g /\ a <> 0 /\
  g' = {| g_free := tget (g_next g) a; g_size := g_size g;
          g_obj := tset (g_obj g) a (Some o); g_next := g_next g;
          g_mark := g_mark g; g_w := g_w g;
          g_l0 := if g_w g then g_l0 g else g_l0 g ++ [a];
          g_l1 := if g_w g then g_l1 g ++ [a] else g_l1 g |}.
Proof.
  unfold gc_alloc_any. destruct (N.eqb_spec (g_free g) 0) as [E|E]; [discriminate|].
  intros H. inversion H; subst. auto.
Qed.

Lemma alloc_free_head g fl : WF g -> chain (g_next g) (g_free g) fl -> g_free g <> 0 ->
  exists t, fl = g_free g :: t /\ chain (g_next g) (tget (g_next g) (g_free g)) t.
Proof. intros _ Hc Hf. apply chain_head_nonzero; assumption. Qed.

Lemma alloc_hands_out_a_free_cell : forall g o g' a, WF g -> gc_alloc_any g o = Some (g', a) ->
  in_range g a /\ ~ allocated g a /\ tget (g_obj g') a = Some o /\
  (forall b, b <> a -> tget (g_obj g') b = tget (g_obj g) b).
Proof.
  intros g o g' a W H. destruct (alloc_inv _ _ _ _ H) as (Ha & Ha0 & Hg'). subst g'.
  destruct (wf_free g W) as (fl & Hch & Hnd & Hfl).
  rewrite <- Ha in Hch.
  destruct (chain_head_nonzero _ _ _ Ha0 Hch) as (t & Ht & _).
  assert (Hin : In a fl) by (rewrite Ht; now left).
  apply Hfl in Hin. destruct Hin as [Hr Hn].
  split; [exact Hr|]. split; [intro Hal; apply Hal; exact Hn|].
  cbn [g_obj]. split; [apply tget_set_same|].
  intros b Hb. apply tget_set_other. congruence.
Qed.

Lemma alloc_oom_iff_full : forall g o, WF g ->
  (gc_alloc_any g o = None <-> forall a, in_range g a -> allocated g a).
Proof.
  intros g o W. destruct (wf_free g W) as (fl & Hch & Hnd & Hfl).
  unfold gc_alloc_any. destruct (N.eqb_spec (g_free g) 0) as [E|E].
  - split; [|reflexivity]. intros _ a Hr Hn.
    rewrite E in Hch. apply chain_head_zero in Hch. subst fl.
    apply (proj2 (Hfl a)). split; assumption.
  - split; [discriminate|]. intros Hall. exfalso.
    destruct (chain_head_nonzero _ _ _ E Hch) as (t & Ht & _).
    assert (Hin : In (g_free g) fl) by (rewrite Ht; now left).
    apply Hfl in Hin. destruct Hin as [Hr Hn]. apply (Hall _ Hr). exact Hn.
Qed.
