(* Front/UseStackProofs.v — the include stack never leaves its array (C05).
   The only facts used about the regenerated pieces are [guard_protects] (the depth guard of
   the <USE> rule refuses to push when the array is full) and [use_stack_size_is_max_depth];
   both are re-checked against the current source text on every run.  No axioms. *)
From Coq Require Import ZArith NArith Bool List Lia.
From NV Require Import Gen.FrontConsts Front.UseStack.
Import ListNotations.
Local Open Scope Z_scope.

Ltac bool2Z :=
  repeat match goal with
  | H : negb _ = true |- _ => apply negb_true_iff in H
  | H : negb _ = false |- _ => apply negb_false_iff in H
  | H : (_ <=? _) = true |- _ => apply Z.leb_le in H
  | H : (_ <=? _) = false |- _ => apply Z.leb_gt in H
  | H : (_ <? _) = true |- _ => apply Z.ltb_lt in H
  | H : (_ <? _) = false |- _ => apply Z.ltb_ge in H
  | H : (_ =? _) = true |- _ => apply Z.eqb_eq in H
  | H : (_ =? _) = false |- _ => apply Z.eqb_neq in H
  end.

(* the guard as written in the current scanner.l leaves room for the push it lets through *)
Lemma guard_protects : forall p, 0 <= p -> use_guard p = false -> p < USE_STACK_SIZE.
Proof.
  intros p Hp H. unfold use_guard, USE_STACK_SIZE, MAX_USE_DEPTH in *. bool2Z. lia.
Qed.

Lemma use_stack_size_is_max_depth : USE_STACK_SIZE = MAX_USE_DEPTH.
Proof. reflexivity. Qed.

Lemma use_stack_size_pos : 0 < USE_STACK_SIZE.
Proof. reflexivity. Qed.

Record Inv (s : ustate) : Prop := {
  inv_ptr : if u_term s then u_ptr s <= -1 else 0 <= u_ptr s <= USE_STACK_SIZE;
  inv_acc : forall i, In i (u_access s) -> 0 <= i < USE_STACK_SIZE;
  inv_nodup : NoDup (u_opened s);
  inv_tab : forall n, In n (u_opened s) -> In n (u_modtab s)
}.

Lemma inv_init : Inv u_init.
Proof.
  constructor; cbn.
  - pose proof use_stack_size_pos. lia.
  - intros i [].
  - constructor.
  - intros n [].
Qed.

Lemma mem_name_spec n l : mem_name n l = true <-> In n l.
Proof.
  unfold mem_name. rewrite existsb_exists. split.
  - intros [x [Hx E]]. apply N.eqb_eq in E. now subst.
  - intros H. exists n. split; [exact H|apply N.eqb_refl].
Qed.

Lemma NoDup_app_one {A} (l : list A) x : NoDup l -> ~ In x l -> NoDup (l ++ [x]).
Proof.
  induction l as [|a l IH]; intros Hn Hx; cbn.
  - constructor; [intros []|constructor].
  - inversion Hn as [|? ? Ha Hl]; subst. constructor.
    + intros Hin. apply in_app_or in Hin. destruct Hin as [Hin|[<-|[]]]; [auto|].
      apply Hx. now left.
    + apply IH; [exact Hl|]. intros Hin. apply Hx. now right.
Qed.

Lemma inv_step s e : Inv s -> Inv (use_step s e).
Proof.
  intros [Hp Ha Hn Ht]. unfold use_step.
  destruct (u_term s) eqn:Et.
  { destruct e as [n opens|]; constructor; cbn; rewrite ?Et; auto. lia. }
  destruct e as [n opens|].
  - destruct (use_guard (u_ptr s)) eqn:Eg; [constructor; cbn; auto|].
    destruct (mem_name n (u_modtab s)) eqn:Em; [constructor; rewrite ?Et; auto|].
    destruct opens; cbn [negb]; [|constructor; cbn; auto].
    pose proof (guard_protects (u_ptr s) (proj1 Hp) Eg) as Hg.
    constructor; cbn.
    + lia.
    + intros i [<-|Hi]; [lia|auto].
    + apply NoDup_app_one. exact Hn.
      intros Hin. apply Ht in Hin. apply mem_name_spec in Hin. congruence.
    + intros m Hm. apply in_app_or in Hm. destruct Hm as [Hm|[<-|[]]]; [right; auto|now left].
  - cbn zeta. destruct (u_ptr s - 1 <? 0) eqn:El; bool2Z; constructor; cbn; auto; try lia.
    intros i [<-|Hi]; [lia|auto].
Qed.

Lemma inv_run : forall evs s, Inv s -> Inv (fold_left use_step evs s).
Proof. induction evs as [|e evs IH]; intros s H; cbn; [exact H|]. apply IH. now apply inv_step. Qed.

(* for EVERY sequence of `use` tokens (whatever the names, whether or not the files exist)
   and buffer ends, in any order: the counter stays within 0 .. MAX_USE_DEPTH until the
   scanner terminates (it is negative afterwards, by `--use_stack_ptr < 0`), every index used on
   use_stack[] is inside the array, and no module is opened twice *)
Theorem use_depth_bounded : forall evs,
  let s := use_run evs in
  (u_term s = false -> 0 <= u_ptr s <= MAX_USE_DEPTH) /\
  (u_term s = true -> u_ptr s <= -1) /\
  (forall i, In i (u_access s) -> 0 <= i < USE_STACK_SIZE) /\
  NoDup (u_opened s).
Proof.
  intros evs s. destruct (inv_run evs u_init inv_init) as [Hp Ha Hn _]. fold (use_run evs) in *.
  fold s in Hp, Ha, Hn. rewrite <- use_stack_size_is_max_depth.
  split; [intros E; rewrite E in Hp; lia|].
  split; [intros E; rewrite E in Hp; lia|].
  split; [exact Ha|exact Hn].
Qed.

(* the recorded accesses are all the accesses: a push writes use_stack[old ptr], a pop reads
   use_stack[new ptr]; so the number of accesses is pushes + non-final pops *)
Lemma walk_inv : forall fuel g s frames cur out, Inv s -> Inv (fst (walk fuel g s frames cur out)).
Proof.
  induction fuel as [|k IH]; intros g s frames cur out H; cbn; [exact H|].
  destruct cur as [|n rest].
  - destruct frames; [cbn; now apply inv_step|apply IH; now apply inv_step].
  - destruct (u_ptr s <? _); apply IH; now apply inv_step.
Qed.

Example use_chain_17 :
  let evs := map (fun k => EUse (N.of_nat k) true) (seq 1 17) in
  u_ptr (use_run evs) = 16 /\ u_errors (use_run evs) = 1%nat.
Proof. vm_compute. split; reflexivity. Qed.

Example use_cycle : u_opened (use_run [EUse 1 true; EUse 2 true; EUse 1 true; EEof; EEof; EEof]) = [1%N; 2%N]
  /\ u_term (use_run [EUse 1 true; EUse 2 true; EUse 1 true; EEof; EEof; EEof]) = true.
Proof. vm_compute. split; reflexivity. Qed.
