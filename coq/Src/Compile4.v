(* Src/Compile4.v — stage 4 of the model of the code generator /repo/front/emit.c (Src/Compile3.v stays,
   with the F3/F5 theorems): everything of Compile3.v — expressions, blocks, loops, print, calls, self
   tail calls, catch clauses, the whole module image — plus NESTED FUNCTIONS AND CLOSURES:
     front/gencode.c                 the free-variable list of every function (`fvs_fd`)
     expr_id_emit                    a name is a slot of the running function (ID_LOCAL: parameter,
                                     let/var, nested function of this function), a captured variable
                                     (ID_GLOBAL i), a top-level function (GLOBAL_VEC 0; ID_FUNC_ADDR f) or
                                     the running nested function itself (COPYGLOB; ID_FUNC_ADDR f)
     func_emit_native                FUNC_OBJ; LINE; the captured cells (ID_LOCAL / ID_GLOBAL), the e-th
                                     at level L+e; GLOBAL_VEC n; ID_FUNC_ADDR f      (also ELambda)
     seq_func_emit                   a maximal run of k adjacent function items: ALLOC k (slots L+1 …
                                     L+k, visible to all of them), then per function its closure at
                                     level L+k and REWRITE k, k-1, …, 1
     seq_emit                        the block's final SLIDE counts the function slots too
     expr_call_emit                  LINE; MARK ret; args right to left; the callee EXPRESSION; CALL;
                                     ret: LABEL  — the callee is any expression (a name of any kind, a
                                     call that returns a function, a function expression)
     expr_last_call_emit             self calls in tail position of a NAMED function (top-level or
                                     nested; a function expression has no name): args; callee; SLIDE; CALL
     main_emit                       bodies: stdlib, top-level functions, then the nested functions
                                     breadth-first in the order their closures are emitted (`all_funcs`)
   The operand of ID_FUNC_ADDR in the relative code is the index of the function in that order, found
   by NAME: the model assumes (and the fragment requires) that all functions of a program, function
   expressions included, have different names in the AST (the pretty-printer prints no name for ELambda).
   See Compile3.v for the conventions (relative code, linking, LINE operands, constred).

   No axioms. *)
From Coq Require Import ZArith List Bool Lia.
From NV Require Import Gen.Opcodes Verifier.Effect Src.Syntax Src.SyntaxDec Src.Eval VM.ValueVM4.
Import ListNotations.
Local Open Scope Z_scope.

Definition cenv := list (ident * Z).        (* name -> index operand of ID_LOCAL *)

Fixpoint clookup (x : ident) (ce : cenv) : option Z :=
  match ce with
  | [] => None
  | (y, i) :: t => if N.eqb x y then Some i else clookup x t
  end.

Definition cidx (x : ident) (ce : cenv) : Z :=
  match clookup x ce with Some i => i | None => 0 end.

Definition ins (o : opcode) (a b : Z) : rinstr := {| r_op := o; r_w0 := a; r_w1 := b; r_w2 := 0 |}.
Definition ins0 (o : opcode) : rinstr := ins o 0 0.

Definition len (c : list rinstr) : Z := Z.of_nat (length c).

(* the operator instruction that follows the two operands *)
Definition binop_opcode (op : binop) : opcode :=
  match op with
  | Add => BYTECODE_OP_ADD_INT
  | Sub => BYTECODE_OP_SUB_INT
  | Mul => BYTECODE_OP_MUL_INT
  | Div => BYTECODE_OP_DIV_INT
  | Mod => BYTECODE_OP_MOD_INT
  | Lt => BYTECODE_OP_LT_INT
  | Le => BYTECODE_OP_LTE_INT
  | Gt => BYTECODE_OP_GT_INT
  | Ge => BYTECODE_OP_GTE_INT
  | Eq => BYTECODE_OP_EQ_INT
  | Ne => BYTECODE_OP_NEQ_INT
  | BAnd => BYTECODE_OP_BIN_AND_INT
  | BOr => BYTECODE_OP_BIN_OR_INT
  | BXor => BYTECODE_OP_BIN_XOR_INT
  | Shl => BYTECODE_OP_BIN_SHL_INT
  | Shr => BYTECODE_OP_BIN_SHR_INT
  | And | Or => BYTECODE_UNKNOWN         (* short-circuit forms are jumps, not an opcode *)
  end.

(* expr_div_emit / expr_mod_emit put a LINE before the operator (the fault message needs it) *)
Definition binop_code (op : binop) : list rinstr :=
  match op with
  | Div | Mod => [ins0 BYTECODE_LINE; ins0 (binop_opcode op)]
  | _ => [ins0 (binop_opcode op)]
  end.

(* number of let/var/func items of a block: the slots it occupies *)
Fixpoint nbinds (l : list item) : Z :=
  match l with
  | [] => 0
  | (ILet _ _ | IVar _ _ | IFunc _) :: t => 1 + nbinds t
  | _ :: t => nbinds t
  end.

(* expr_list_emit: the last argument first; the k-th compiled argument sits at level L + k *)
Definition compile_args_f (cx : Z -> cenv -> expr -> list rinstr) (ce : cenv) :=
  fix go (L : Z) (l : list expr) {struct l} : list rinstr :=
  match l with
  | [] => []
  | a :: t => go L t ++ cx (L + Z.of_nat (length t)) ce a
  end.

Definition block_end (n : Z) : list rinstr :=
  if 0 <? n then [ins BYTECODE_SLIDE n 1] else [].

(* expr_while_emit, on the compiled condition and body (expr_for_emit's loop is the same code with
   body; SLIDE 1 0; incr as body) *)
Definition while_code (cc cb : list rinstr) : list rinstr :=
  ins0 BYTECODE_LABEL :: cc ++ ins BYTECODE_JUMPZ (len cb + 3) 0 :: cb ++
  [ins BYTECODE_SLIDE 1 0; ins BYTECODE_JUMP (- (len cc + len cb + 3)) 0; ins0 BYTECODE_LABEL;
   ins BYTECODE_INT 0 0].

Definition dowhile_code (cb cc : list rinstr) : list rinstr :=
  ins0 BYTECODE_LABEL :: cb ++ ins BYTECODE_SLIDE 1 0 :: cc ++
  [ins BYTECODE_JUMPZ 2 0; ins BYTECODE_JUMP (- (len cb + len cc + 3)) 0; ins0 BYTECODE_LABEL;
   ins BYTECODE_INT 0 0].

Definition and_code (ca cb : list rinstr) : list rinstr :=
  ca ++ ins BYTECODE_JUMPZ (len cb + 4) 0 :: cb ++
  [ins BYTECODE_JUMPZ 3 0; ins BYTECODE_INT 1 0; ins BYTECODE_JUMP 3 0; ins0 BYTECODE_LABEL;
   ins BYTECODE_INT 0 0; ins0 BYTECODE_LABEL].

Definition or_code (ca cb : list rinstr) : list rinstr :=
  ca ++ ins BYTECODE_JUMPZ 2 0 :: ins BYTECODE_JUMP (len cb + 3) 0 :: ins0 BYTECODE_LABEL :: cb ++
  [ins BYTECODE_JUMPZ 4 0; ins0 BYTECODE_LABEL; ins BYTECODE_INT 1 0; ins BYTECODE_JUMP 3 0;
   ins0 BYTECODE_LABEL; ins BYTECODE_INT 0 0; ins0 BYTECODE_LABEL].

(* NUM_FRAME_PTRS of emit.c: the slots MARK pushes *)
Definition num_frame_ptrs : Z := 5.

(* function indices (operand of ID_FUNC_ADDR before linking): the stdlib of front/libmath.c … *)
Definition nstd : nat := 30.
Definition print_idx : Z := 13.

(* expr_call_emit, given the compiled arguments and the compiled callee expression *)
Definition call_code (ca cf : list rinstr) : list rinstr :=
  ins0 BYTECODE_LINE :: ins BYTECODE_MARK (len ca + len cf + 2) 0 :: ca ++ cf ++
  [ins0 BYTECODE_CALL; ins0 BYTECODE_LABEL].

(* expr_last_call_emit: v arguments *)
Definition last_call_code (L v : Z) (ca cf : list rinstr) : list rinstr :=
  ca ++ cf ++ [ins BYTECODE_SLIDE (L + v) (v + 1); ins0 BYTECODE_CALL].

(* expr_id_func_top_emit *)
Definition top_code (fi : Z) : list rinstr :=
  [ins BYTECODE_GLOBAL_VEC 0 0; ins BYTECODE_ID_FUNC_ADDR fi 0].

Definition print_code (ca : list rinstr) : list rinstr := call_code ca (top_code print_idx).

Fixpoint fpos (f : ident) (l : list ident) (i : Z) : option Z :=
  match l with
  | [] => None
  | g :: t => if N.eqb f g then Some i else fpos f t (i + 1)
  end.

Definition self_is (self : option ident) (f : ident) : bool :=
  match self with Some g => N.eqb f g | None => false end.

Fixpoint mem_id (x : ident) (l : list ident) : bool :=
  match l with [] => false | y :: t => N.eqb x y || mem_id x t end.

Definition param_names (ps : list (ident * bool * ty)) : list ident := map (fun p => fst (fst p)) ps.

(* ---- free variables (front/gencode.c) -------------------------------------------------------------
   Every function has a list of free variables (func->freevars), by NAME, without repetitions, in the
   order of their first insertion (freevar_list_add); the position is the operand of ID_GLOBAL.
   Insertions:
     (1) while the function is type-checked (front/typecheck.c expr_check_type -> expr_id_gencode):
         every occurrence of a name that is bound in an ENCLOSING function (a parameter, a let/var, a
         nested function's name; syn_level differs) — in the order of the checker's walk: the catch
         clauses FIRST (func_native_check_type), then the body; operands left to right, the callee of a
         call before its arguments, the arguments in source order, the condition of a loop before its
         body (also for do-while), for: init, condition, increment, body;
     (2) at the end of the function's check (func_gencode_freevars): for every function nested
         directly in it — body first, then the catch clauses, same walk — every free variable of the
         nested function that is not bound by this function itself.
   Names of top-level functions are never free (ID_TYPE_FUNC_TOP: GLOBAL_VEC 0; ID_FUNC_ADDR); a
   named nested function's own name in its own body is not free either (ID_TYPE_FUNC_NEST: COPYGLOB;
   ID_FUNC_ADDR).  The model assumes what the fragment requires: all bound names of a program are
   pairwise different (so "bound by this function" is a membership test). *)

Definition len_ids (l : list ident) : Z := Z.of_nat (length l).

Fixpoint dedup (l : list ident) (seen : list ident) : list ident :=
  match l with
  | [] => []
  | x :: t => if mem_id x seen then dedup t seen else x :: dedup t (x :: seen)
  end.

(* names bound at the level of the function itself (not inside nested functions) *)
Fixpoint bnames (e : expr) {struct e} : list ident :=
  match e with
  | ENeg a | ENot a | EBNot a | EPrint a | EField a _ _ => bnames a
  | ERecNew _ es => (fix go (l : list expr) : list ident :=
                       match l with [] => [] | a :: t => bnames a ++ go t end) es
  | EBin _ a b | EAssign a b | EWhile a b | EDoWhile a b | EIf a b | EIndex a b => bnames a ++ bnames b
  | EArrLit es _ => (fix go (l : list expr) : list ident :=
                       match l with [] => [] | a :: t => bnames a ++ go t end) es
  | ECond c a b => bnames c ++ bnames a ++ bnames b
  | EFor i c s b => bnames i ++ bnames c ++ bnames s ++ bnames b
  | ECall f args => bnames f ++ (fix go (l : list expr) : list ident :=
                                   match l with [] => [] | a :: t => bnames a ++ go t end) args
  | EBlock items => (fix go (l : list item) : list ident :=
                       match l with
                       | [] => []
                       | ILet x a :: t | IVar x a :: t => x :: bnames a ++ go t
                       | IFunc fd :: t => fd_name fd :: go t
                       | IExpr a :: t => bnames a ++ go t
                       end) items
  | _ => []
  end.

Definition bnames_items (l : list item) : list ident := bnames (EBlock l).

Definition locals (fd : fdef) : list ident :=
  param_names (fd_params fd) ++ bnames_items (fd_body fd) ++
  flat_map (fun c => bnames_items (snd c)) (fd_catches fd) ++
  match fd_catch_all fd with Some b => bnames_items b | None => [] end.

Section Funs.
Variable FT : list ident.      (* the names of ALL functions of the program, in the order of their bodies *)
Variable TL : list ident.      (* the names of the top-level functions *)

Definition fidx (f : ident) : Z :=
  match fpos f FT (Z.of_nat nstd) with Some i => i | None => 0 end.

Definition nonlocal (own : ident) (loc : list ident) (x : ident) : bool :=
  negb (mem_id x loc) && negb (mem_id x TL) && negb (N.eqb x own).

(* the walk of the checker: d = true collects the names that occur directly (1), d = false the free
   variables of the directly nested functions (2) *)
Fixpoint trav (d : bool) (e : expr) {struct e} : list ident :=
  match e with
  | EVar x => if d then [x] else []
  | ENeg a | ENot a | EBNot a | EPrint a | EField a _ _ => trav d a
  | ERecNew _ es => (fix go (l : list expr) : list ident :=
                       match l with [] => [] | a :: t => trav d a ++ go t end) es
  | EBin _ a b | EAssign a b | EWhile a b | EIf a b | EIndex a b => trav d a ++ trav d b
  | EArrLit es _ => (fix go (l : list expr) : list ident :=
                       match l with [] => [] | a :: t => trav d a ++ go t end) es
  | EDoWhile b c => trav d c ++ trav d b
  | ECond c a b => trav d c ++ trav d a ++ trav d b
  | EFor i c s b => trav d i ++ trav d c ++ trav d s ++ trav d b
  | ECall f args => trav d f ++ (fix go (l : list expr) : list ident :=
                                   match l with [] => [] | a :: t => trav d a ++ go t end) args
  | EBlock items => (fix go (l : list item) : list ident :=
                       match l with [] => [] | it :: t => trav_item d it ++ go t end) items
  | ELambda fd => if d then [] else fvs_fd fd
  | _ => []
  end
with trav_item (d : bool) (it : item) {struct it} : list ident :=
  match it with
  | ILet _ a | IVar _ a | IExpr a => trav d a
  | IFunc fd => if d then [] else fvs_fd fd
  end
with fvs_fd (fd : fdef) {struct fd} : list ident :=
  match fd with
  | FDef name ps _ body cs ca =>
    let loc := locals (FDef name ps TInt body cs ca) in
    let ti := fun (d : bool) => fix go (l : list item) : list ident :=
                match l with [] => [] | it :: t => trav_item d it ++ go t end in
    let tc := fun (d : bool) => fix gc (l : list (exn * list item)) : list ident :=
                match l with [] => [] | c :: t => ti d (snd c) ++ gc t end in
    let ta := fun (d : bool) => match ca with Some b => ti d b | None => [] end in
    dedup (filter (nonlocal name loc)
             (tc true cs ++ ta true ++ ti true body ++ ti false body ++ tc false cs ++ ta false)) []
  end.

Definition trav_items (d : bool) (l : list item) : list ident := trav d (EBlock l).

Fixpoint gpos (x : ident) (l : list ident) (i : Z) : Z :=
  match l with [] => 0 | y :: t => if N.eqb x y then i else gpos x t (i + 1) end.

(* the function being compiled: its own name if it is a NAMED NESTED function, its free variables *)
Record fctx := { fc_self : option ident; fc_fvs : list ident }.

(* expr_id_emit *)
Definition var_code (fc : fctx) (L : Z) (ce : cenv) (x : ident) : list rinstr :=
  match clookup x ce with
  | Some i => [ins BYTECODE_ID_LOCAL L i]                  (* ID_TYPE_LOCAL / BIND / FUNC *)
  | None =>
    if self_is (fc_self fc) x then [ins0 BYTECODE_COPYGLOB; ins BYTECODE_ID_FUNC_ADDR (fidx x) 0]
    else if mem_id x TL then top_code (fidx x)
    else [ins BYTECODE_ID_GLOBAL (gpos x (fc_fvs fc) 0) 0]
  end.

(* func_freevar_list_emit: the captured cells, the e-th at level L + e *)
Fixpoint capture (fc : fctx) (L : Z) (ce : cenv) (l : list ident) : list rinstr :=
  match l with
  | [] => []
  | y :: t =>
    match clookup y ce with
    | Some i => [ins BYTECODE_ID_LOCAL L i]              (* FREEVAR_PARAM / BIND / FUNC *)
    | None =>
      if self_is (fc_self fc) y                          (* FREEVAR_FUNC_SELF: the running nested function itself *)
      then [ins0 BYTECODE_COPYGLOB; ins BYTECODE_ID_FUNC_ADDR (fidx y) 0]
      else [ins BYTECODE_ID_GLOBAL (gpos y (fc_fvs fc) 0) 0]    (* FREEVAR_FREEVAR *)
    end ++ capture fc (L + 1) ce t
  end.

(* func_emit_native *)
Definition closure_code (fc : fctx) (L : Z) (ce : cenv) (g : fdef) : list rinstr :=
  let fv := fvs_fd g in
  ins0 BYTECODE_FUNC_OBJ :: ins0 BYTECODE_LINE :: capture fc L ce fv ++
  [ins BYTECODE_GLOBAL_VEC (len_ids fv) 0; ins BYTECODE_ID_FUNC_ADDR (fidx (fd_name g)) 0].

(* seq_func_emit: the slots of a run of functions are L+1, L+2, … *)
Fixpoint func_cenv (fds : list fdef) (i : Z) (ce : cenv) : cenv :=
  match fds with
  | [] => ce
  | fd :: t => func_cenv t (i + 1) ((fd_name fd, i) :: ce)
  end.

(* seq_list_emit, for an abstract expression compiler (cx), the compiler of the block's last
   expression item (cxl: the same, or the one that knows it is in tail position) and the closure
   maker (cf).  pend = number of functions of the current run still to be stored (REWRITE pend) *)
Definition compile_items_f (cx cxl : Z -> cenv -> expr -> list rinstr)
                           (cf : Z -> cenv -> fdef -> list rinstr) :=
  fix go (L : Z) (ce : cenv) (pend : nat) (l : list item) {struct l} : list rinstr :=
  match l with
  | [] => []
  | IExpr e :: t =>
      (match t with [] => cxl | _ => cx end) L ce e ++
      match t with [] => [] | _ => ins BYTECODE_SLIDE 1 0 :: go L ce 0%nat t end
  | ILet x e :: t | IVar x e :: t =>
      cx L ce e ++ go (L + 1) ((x, L + 1) :: ce) 0%nat t
  | IFunc fd :: t =>
      match pend with
      | O =>
        let fds := fd :: run_funcs t in
        let k := length fds in
        let ce' := func_cenv fds (L + 1) ce in
        let L' := L + Z.of_nat k in
        ins BYTECODE_ALLOC (Z.of_nat k) 0 :: cf L' ce' fd ++
        ins BYTECODE_REWRITE (Z.of_nat k) 0 :: go L' ce' (k - 1)%nat t
      | S p => cf L ce fd ++ ins BYTECODE_REWRITE (Z.of_nat pend) 0 :: go L ce p t
      end
  end.

(* self = the enclosing function if front/tailrec.c can mark calls of it (it has a name), tail = the
   expression is in tail position.  Sub-expressions that are not in tail position are compiled by
   `cexpr fc None false` = compile_expr. *)
Fixpoint cexpr (fc : fctx) (self : option ident) (tail : bool) (L : Z) (ce : cenv) (e : expr) {struct e}
  : list rinstr :=
  match e with
  | EInt z => [ins BYTECODE_INT z 0]
  | EBool b => [ins BYTECODE_INT (b2z b) 0]
  | EVar x => var_code fc L ce x
  | ENeg a => cexpr fc None false L ce a ++ [ins0 BYTECODE_OP_NEG_INT]
  | ENot a => cexpr fc None false L ce a ++ [ins0 BYTECODE_OP_NOT_INT]
  | EBin And a b => and_code (cexpr fc None false L ce a) (cexpr fc None false L ce b)
  | EBin Or a b => or_code (cexpr fc None false L ce a) (cexpr fc None false L ce b)
  | EBin op a b => cexpr fc None false L ce a ++ cexpr fc None false (L + 1) ce b ++ binop_code op
  | ECond c a b =>
      let ca := cexpr fc self tail L ce a in
      let cb := cexpr fc self tail L ce b in
      cexpr fc None false L ce c ++ ins BYTECODE_JUMPZ (len ca + 2) 0 :: ca ++
      ins BYTECODE_JUMP (len cb + 2) 0 :: ins0 BYTECODE_LABEL :: cb ++ [ins0 BYTECODE_LABEL]
  | EAssign l r => cexpr fc None false L ce l ++ cexpr fc None false (L + 1) ce r ++ [ins0 BYTECODE_OP_ASS_INT]
  | EBlock items =>
      compile_items_f (cexpr fc None false) (cexpr fc self tail) (closure_code fc) L ce 0%nat items ++
      block_end (nbinds items)
  | EWhile c b => while_code (cexpr fc None false L ce c) (cexpr fc None false L ce b)
  | EDoWhile b c => dowhile_code (cexpr fc None false L ce b) (cexpr fc None false L ce c)
  | EFor i c s b =>
      cexpr fc None false L ce i ++ ins BYTECODE_SLIDE 1 0 ::
      while_code (cexpr fc None false L ce c)
                 (cexpr fc None false L ce b ++ ins BYTECODE_SLIDE 1 0 :: cexpr fc None false L ce s)
  | EPrint a => print_code (cexpr fc None false (L + num_frame_ptrs) ce a)
  | ECall f args =>
      let v := Z.of_nat (length args) in
      if tail && match f with EVar g => self_is self g | _ => false end
      then last_call_code L v (compile_args_f (cexpr fc None false) ce L args)
                          (cexpr fc None false (L + v) ce f)
      else call_code (compile_args_f (cexpr fc None false) ce (L + num_frame_ptrs) args)
                     (cexpr fc None false (L + num_frame_ptrs + v) ce f)
  | ELambda fd => closure_code fc L ce fd
  | EArrLit es _ =>                      (* array_init_emit: the elements last to first, the size, MK_INIT_ARRAY 1 *)
      compile_args_f (cexpr fc None false) ce L es ++
      [ins BYTECODE_INT (Z.of_nat (length es)) 0; ins BYTECODE_MK_INIT_ARRAY 1 0]
  | EIndex a i =>                        (* expr_array_deref_emit: the array, the index, ARRAYREF_DEREF 1 *)
      cexpr fc None false L ce a ++ cexpr fc None false (L + 1) ce i ++ [ins BYTECODE_ARRAYREF_DEREF 1 0]
  | ERecNew _ es =>                      (* expr_record_emit: the fields last to first, RECORD n *)
      compile_args_f (cexpr fc None false) ce L es ++ [ins BYTECODE_RECORD (Z.of_nat (length es)) 0]
  | ERecNil _ => [ins0 BYTECODE_NIL_RECORD_REF]
  | EField a _ fld =>                    (* expr_attr_emit: the record, VECREF_VEC_DEREF 0 fld, SLIDE 1 1 *)
      cexpr fc None false L ce a ++ [ins BYTECODE_VECREF_VEC_DEREF 0 (Z.of_nat fld); ins BYTECODE_SLIDE 1 1]
  | _ => []                              (* outside the fragment *)
  end.

Definition compile_expr (fc : fctx) := cexpr fc None false.
Definition compile_items (fc : fctx) :=
  compile_items_f (compile_expr fc) (compile_expr fc) (closure_code fc).
Definition compile_args (fc : fctx) := compile_args_f (compile_expr fc).

(* func_enum_param_list: the first parameter has index 0, the next -1, … *)
Fixpoint param_env (ps : list (ident * bool * ty)) (i : Z) : cenv :=
  match ps with
  | [] => []
  | (x, _, _) :: t => (x, i) :: param_env t (i - 1)
  end.

(* how a function came to be: at top level, as a named item of a block, as a function expression *)
Inductive fkind := KTop | KNamed | KLam.

Definition ctx_of (k : fkind) (fd : fdef) : fctx :=
  {| fc_self := match k with KNamed => Some (fd_name fd) | _ => None end; fc_fvs := fvs_fd fd |}.

Definition tail_self (k : fkind) (fd : fdef) : option ident :=
  match k with KLam => None | _ => Some (fd_name fd) end.

(* the body of a function is in tail position of that function *)
Definition compile_body (k : fkind) (fd : fdef) : list rinstr :=
  cexpr (ctx_of k fd) (tail_self k fd) true 0 (param_env (fd_params fd) 0) (EBlock (fd_body fd)).

(* catch clauses (except_emit / except_all_emit): CLEAR_STACK nparams; [INT no; PUSH_EXCEPT;
   OP_EQ_INT; JUMPZ next;] the clause's block (not in tail position: front/tailrec.c marks nothing in
   handlers); RET; LABEL.  The clause sees the parameters (level 0) and, through gp, the free variables. *)
Definition clause_body (k : fkind) (fd : fdef) (body : list item) : list rinstr :=
  cexpr (ctx_of k fd) None false 0 (param_env (fd_params fd) 0) (EBlock body).

Definition clause_seg (k : fkind) (fd : fdef) (c : exn * list item) : list rinstr :=
  let cb := clause_body k fd (snd c) in
  ins BYTECODE_CLEAR_STACK (Z.of_nat (length (fd_params fd))) 0 :: ins BYTECODE_INT (exn_no (fst c)) 0 ::
  ins0 BYTECODE_PUSH_EXCEPT :: ins0 BYTECODE_OP_EQ_INT :: ins BYTECODE_JUMPZ (len cb + 2) 0 ::
  cb ++ [ins0 BYTECODE_RET; ins0 BYTECODE_LABEL].

Definition all_seg (k : fkind) (fd : fdef) (body : list item) : list rinstr :=
  ins BYTECODE_CLEAR_STACK (Z.of_nat (length (fd_params fd))) 0 ::
  clause_body k fd body ++ [ins0 BYTECODE_RET; ins0 BYTECODE_LABEL].

(* func_body_emit_native: the segments of a function — FUNC_DEF body LINE RET LABEL, then one per
   clause — each ending with the LABEL that is the handler of its addresses; then RETHROW *)
Definition body_seg (k : fkind) (fd : fdef) : list rinstr :=
  ins0 BYTECODE_FUNC_DEF :: compile_body k fd ++ [ins0 BYTECODE_LINE; ins0 BYTECODE_RET; ins0 BYTECODE_LABEL].

Definition clause_segs (k : fkind) (fd : fdef) : list (list rinstr) :=
  map (clause_seg k fd) (fd_catches fd) ++
  match fd_catch_all fd with Some b => [all_seg k fd b] | None => [] end.

Definition fsegs (kf : fkind * fdef) : list (list rinstr) :=
  body_seg (fst kf) (snd kf) :: clause_segs (fst kf) (snd kf).

Definition compile_func (kf : fkind * fdef) : list rinstr := concat (fsegs kf) ++ [ins0 BYTECODE_RETHROW].

End Funs.

(* ---- the functions of a program, in the order of their bodies -------------------------------------
   main_emit: func_emit_native appends the function to a FIFO (func_list_weak) when its closure is
   emitted; the bodies are emitted by popping it: the top-level functions in source order, then the
   functions nested in them in the order their closures appear in the emitted code (arguments of a
   call last to first, then the callee; for: init, condition, body, increment; the body, then the catch
   clauses), then those nested in these, … *)
Fixpoint nest (e : expr) {struct e} : list (fkind * fdef) :=
  match e with
  | ENeg a | ENot a | EBNot a | EPrint a | EField a _ _ => nest a
  | ERecNew _ es => (fix go (l : list expr) : list (fkind * fdef) :=
                       match l with [] => [] | a :: t => go t ++ nest a end) es
  | EBin _ a b | EAssign a b | EWhile a b | EDoWhile a b | EIf a b | EIndex a b => nest a ++ nest b
  | EArrLit es _ => (fix go (l : list expr) : list (fkind * fdef) :=
                       match l with [] => [] | a :: t => go t ++ nest a end) es
  | ECond c a b => nest c ++ nest a ++ nest b
  | EFor i c s b => nest i ++ nest c ++ nest b ++ nest s
  | ECall f args => (fix go (l : list expr) : list (fkind * fdef) :=
                       match l with [] => [] | a :: t => go t ++ nest a end) args ++ nest f
  | EBlock items => (fix go (l : list item) : list (fkind * fdef) :=
                       match l with
                       | [] => []
                       | ILet _ a :: t | IVar _ a :: t | IExpr a :: t => nest a ++ go t
                       | IFunc fd :: t => (KNamed, fd) :: go t
                       end) items
  | ELambda fd => [(KLam, fd)]
  | _ => []
  end.

Definition nest_items (l : list item) : list (fkind * fdef) := nest (EBlock l).

Definition nest_fd (fd : fdef) : list (fkind * fdef) :=
  nest_items (fd_body fd) ++ flat_map (fun c => nest_items (snd c)) (fd_catches fd) ++
  match fd_catch_all fd with Some b => nest_items b | None => [] end.

(* nesting depth of function definitions *)
Fixpoint edepth (e : expr) {struct e} : nat :=
  match e with
  | ENeg a | ENot a | EBNot a | EPrint a | EField a _ _ => edepth a
  | ERecNew _ es => (fix go (l : list expr) : nat :=
                       match l with [] => 0 | a :: t => Nat.max (edepth a) (go t) end) es
  | EBin _ a b | EAssign a b | EWhile a b | EDoWhile a b | EIf a b | EIndex a b => Nat.max (edepth a) (edepth b)
  | EArrLit es _ => (fix go (l : list expr) : nat :=
                       match l with [] => 0 | a :: t => Nat.max (edepth a) (go t) end) es
  | ECond c a b => Nat.max (edepth c) (Nat.max (edepth a) (edepth b))
  | EFor i c s b => Nat.max (Nat.max (edepth i) (edepth c)) (Nat.max (edepth s) (edepth b))
  | ECall f args => Nat.max (edepth f) ((fix go (l : list expr) : nat :=
                                           match l with [] => 0 | a :: t => Nat.max (edepth a) (go t) end) args)
  | EBlock items => (fix go (l : list item) : nat :=
                       match l with [] => 0 | it :: t => Nat.max (idepth it) (go t) end) items
  | ELambda fd => fdepth fd
  | _ => 0
  end%nat
with idepth (it : item) {struct it} : nat :=
  match it with
  | ILet _ a | IVar _ a | IExpr a => edepth a
  | IFunc fd => fdepth fd
  end
with fdepth (fd : fdef) {struct fd} : nat :=
  match fd with
  | FDef _ _ _ body cs ca =>
    let ti := fix go (l : list item) : nat :=
                match l with [] => 0 | it :: t => Nat.max (idepth it) (go t) end in
    S (Nat.max (ti body)
         (Nat.max ((fix gc (l : list (exn * list item)) : nat :=
                      match l with [] => 0 | c :: t => Nat.max (ti (snd c)) (gc t) end) cs)
                  (match ca with Some b => ti b | None => 0 end)))
  end%nat.

Fixpoint levels (fuel : nat) (l : list (fkind * fdef)) : list (fkind * fdef) :=
  match fuel with
  | O => []
  | S k => match l with [] => [] | _ => l ++ levels k (flat_map (fun kf => nest_fd (snd kf)) l) end
  end.

Definition all_funcs (p : program) : list (fkind * fdef) :=
  levels (S (fold_right (fun fd n => Nat.max (fdepth fd) n) 0%nat (p_funcs p)))
         (map (fun fd => (KTop, fd)) (p_funcs p)).

Definition fnames (p : program) : list ident := map (fun kf => fd_name (snd kf)) (all_funcs p).
Definition tnames (p : program) : list ident := map fd_name (p_funcs p).

(* ---- the module image ------------------------------------------------------------------------ *)

(* libmath_add_funcs: (number of parameters, builtin id) of sin cos tan exp log sqrt pow str strf
   ord chr read printb print printl printf printd printc prints length assert assertf c_int_ptr
   c_long_ptr c_float_ptr c_double_ptr c_bool_ptr c_char_ptr c_string_ptr c_ptr_ptr *)
Definition std_tab : list (nat * Z) :=
  map (fun p : nat * nat => (fst p, Z.of_nat (snd p)))
  [(1,1);(1,2);(1,3);(1,4);(1,5);(1,6);(2,7);(1,8);(1,9);(1,10);(1,11);(0,12);(1,15);(1,13);(1,14);
   (1,16);(1,17);(1,18);(1,19);(1,20);(1,21);(2,22);(1,23);(1,24);(1,25);(1,26);(1,27);(1,28);
   (1,29);(1,30)]%nat.

Definition std_body (e : nat * Z) : list rinstr :=
  ins0 BYTECODE_FUNC_DEF ::
  match fst e with
  | 0%nat => []
  | 1%nat => [ins BYTECODE_ID_LOCAL 0 0]
  | _ => [ins BYTECODE_ID_LOCAL 0 (-1); ins BYTECODE_ID_LOCAL 1 0]
  end ++
  [ins BYTECODE_BUILD_IN (snd e) 0; ins0 BYTECODE_RET; ins0 BYTECODE_LABEL; ins0 BYTECODE_RETHROW].

(* FUNC_OBJ; [LINE;] GLOBAL_VEC 0; ID_FUNC_ADDR i; REWRITE k  for the functions i, i+1, … whose
   slots are k, k-1, … below the top *)
Fixpoint closures (line : bool) (i : Z) (k : nat) : list rinstr :=
  match k with
  | O => []
  | S k' =>
    ins0 BYTECODE_FUNC_OBJ :: (if line then [ins0 BYTECODE_LINE] else []) ++
    [ins BYTECODE_GLOBAL_VEC 0 0; ins BYTECODE_ID_FUNC_ADDR i 0; ins BYTECODE_REWRITE (Z.of_nat k) 0]
    ++ closures line (i + 1) k'
  end.

Definition prelude (n : nat) : list rinstr :=
  ins BYTECODE_ALLOC (Z.of_nat nstd) 0 :: closures false 0 nstd ++
  ins BYTECODE_ALLOC (Z.of_nat n) 0 :: closures true (Z.of_nat nstd) n.

(* func_entry_emit *)
Definition stub : list rinstr :=
  [ins0 BYTECODE_LABEL; ins BYTECODE_MARK 5 0; ins0 BYTECODE_PUSH_PARAM; ins BYTECODE_GLOBAL_VEC 0 0;
   ins0 BYTECODE_ID_FUNC_ENTRY; ins0 BYTECODE_CALL; ins0 BYTECODE_LABEL; ins0 BYTECODE_HALT;
   ins0 BYTECODE_LABEL; ins0 BYTECODE_UNHANDLED_EXCEPTION].

Definition bodies (p : program) : list (list rinstr) :=
  map std_body std_tab ++ map (compile_func (fnames p) (tnames p)) (all_funcs p).

(* the lengths of the segments of every function (a stdlib body is one segment + RETHROW) *)
Definition seglens (p : program) : list (list nat) :=
  map (fun e => [length (std_body e) - 1]%nat) std_tab ++
  map (fun kf => map (@length rinstr) (fsegs (fnames p) (tnames p) kf)) (all_funcs p).

Definition code_entry (p : program) : nat := length (prelude (length (p_funcs p))).
Definition head_len (p : program) : nat := code_entry p + length stub.

Fixpoint addrs_from (a : nat) (bs : list (list rinstr)) : list nat :=
  match bs with [] => [] | b :: t => a :: addrs_from (a + length b) t end.

(* the address of every function, by index *)
Definition ftable (p : program) : list nat := addrs_from (head_len p) (bodies p).

Definition rel_image (p : program) : list rinstr :=
  prelude (length (p_funcs p)) ++ stub ++ concat (bodies p).

(* linking *)
Definition reloc (tbl : list nat) (a : nat) (i : rinstr) : rinstr :=
  match r_op i with
  | BYTECODE_MARK => {| r_op := BYTECODE_MARK; r_w0 := Z.of_nat a + r_w0 i; r_w1 := r_w1 i; r_w2 := r_w2 i |}
  | BYTECODE_ID_FUNC_ADDR =>
      {| r_op := BYTECODE_ID_FUNC_ADDR; r_w0 := Z.of_nat (nth (Z.to_nat (r_w0 i)) tbl 0%nat);
         r_w1 := r_w1 i; r_w2 := r_w2 i |}
  | _ => i
  end.

Fixpoint link (tbl : list nat) (a : nat) (c : list rinstr) : list rinstr :=
  match c with [] => [] | i :: t => reloc tbl a i :: link tbl (S a) t end.

Definition compile_program (p : program) : list rinstr := link (ftable p) 0 (rel_image p).

(* exception_tab_insert: [0 ..) -> the stub's unhandled label; every segment of every function
   (the body, each catch clause) -> the LABEL that ends it *)
Fixpoint seg_entries (a : nat) (ls : list nat) : list (nat * nat) :=
  match ls with [] => [] | n :: t => (a, a + n - 1)%nat :: seg_entries (a + n) t end.

(* per function: the entries of its segments; the next function starts after the RETHROW *)
Fixpoint func_tab (a : nat) (ls : list (list nat)) : list (nat * nat) :=
  match ls with
  | [] => []
  | l :: t => seg_entries a l ++ func_tab (a + fold_right Nat.add 0 l + 1)%nat t
  end.

Definition exc_table (p : program) : list (nat * nat) :=
  (0%nat, code_entry p + 8)%nat :: func_tab (head_len p) (seglens p).

Definition main_addr (p : program) : nat :=
  match fpos (p_main p) (fnames p) (Z.of_nat nstd) with
  | Some i => nth (Z.to_nat i) (ftable p) 0%nat
  | None => 0%nat
  end.

Definition prog_xinfo (p : program) (args : list Z) : xinfo :=
  {| x_tab := exc_table p; x_entry := main_addr p; x_args := args; x_ftab := ftable p |}.

(* the model VM runs the relative image and links on the fly (VM/ValueVM4.v); the real machine
   starts at address 0; the model starts at the entry stub, with the slots the
   prelude leaves: the 30 stdlib closures and the program's *)
Definition run_vm (p : program) (fuel : nat) (args : list Z) : vres :=
  run (prog_xinfo p args) (rel_image p) fuel
      (boot_state (code_entry p) (nstd + length (p_funcs p))).

Definition run_vm_peak (p : program) (fuel : nat) (args : list Z) : vres * (nat * nat) :=
  run_peak (prog_xinfo p args) (rel_image p) fuel
           (boot_state (code_entry p) (nstd + length (p_funcs p))) 0 0.


(* ---- the fragment F4 -----------------------------------------------------------------------------
   F4 = F5 (Compile3.v: int/bool expressions, blocks, loops, print, calls of top-level functions, self
   tail calls, catch clauses) + nested functions and closures:
     - function items in blocks (a maximal run of adjacent ones is mutually visible), function
       expressions (ELambda), both capturing parameters, let/var names and nested functions of the
       enclosing functions at any depth;
     - names of functions (top-level, nested, the running function itself) and function-valued
       parameters / let names used as VALUES: bound, passed, returned, called later;
     - calls whose callee is any expression of the fragment.
   Side conditions (besides those of F1–F5):
     - all bound names of the program — functions (function expressions included), parameters,
       let/var names — are pairwise different (`names_ok`);
     - the right-hand side of an assignment is `int_shaped`: a form whose value, when the evaluator
       yields one, is an int/bool cell (write `x = y + 0` for `x = y`; Src/Eval.v is untyped: it would
       copy a function value where the compiled OP_ASS_INT cannot);
     - (no longer a side condition: inside a function h nested in a NAMED NESTED function f the name f may
       occur — front/gencode.c marks the entry f adds for itself FREEVAR_FUNC_SELF and the closure maker
       captures it by COPYGLOB; ID_FUNC_ADDR f, `capture`; before the repair of /repo the emitter read slot
       f->index of the wrong frame: found while modelling, see known findings);
     - a function with catch clauses has no self call in tail position (as in F5); clause blocks see
       the parameters and the captured names. *)

Fixpoint int_shaped (e : expr) {struct e} : bool :=
  match e with
  | EInt _ | EBool _ | ENeg _ | ENot _ | EBin _ _ _ | EPrint _ | EWhile _ _ | EDoWhile _ _
  | EFor _ _ _ _ => true
  | EAssign _ r => int_shaped r
  | ECond _ a b => int_shaped a && int_shaped b
  | EBlock items => (fix last (l : list item) : bool :=
                       match l with
                       | [] => false
                       | IExpr a :: t => match t with [] => int_shaped a | _ => last t end
                       | _ :: t => last t
                       end) items
  | _ => false
  end.

Definition is_lit (e : expr) : bool :=
  match e with EInt _ | EBool _ => true | _ => false end.

Definition int_lit_ok (z : Z) : bool := (-2147483648 <=? z) && (z <=? 2147483647).

Definition shift_ok (op : binop) (b : expr) : bool :=
  match op with
  | Shl | Shr => match b with EInt k => (0 <=? k) && (k <? 32) | _ => false end
  | _ => true
  end.

Definition remove_id (x : option ident) (l : list ident) : list ident :=
  match x with Some f => filter (fun y => negb (N.eqb y f)) l | None => l end.

(* no call of the function `self` is in tail position of e (tail positions, front/tailrec.c: the
   expression itself, both branches of ?: / if-else, the last expression item of a block) *)
Definition nst_items_f (f : expr -> bool) :=
  fix go (l : list item) : bool :=
  match l with
  | [] => true
  | IExpr e :: t => match t with [] => f e | _ => go t end
  | _ :: t => go t
  end.

Fixpoint nst (self : ident) (e : expr) {struct e} : bool :=
  match e with
  | ECond _ a b => nst self a && nst self b
  | EBlock items => nst_items_f (nst self) items
  | ECall (EVar f) _ => negb (N.eqb f self)
  | _ => true
  end.

Definition no_self_tail_fd (fd : fdef) : bool := nst (fd_name fd) (EBlock (fd_body fd)).

Definition no_catch (fd : fdef) : bool :=
  match fd_catches fd, fd_catch_all fd with [], None => true | _, _ => false end.

(* the items of a block: fe checks an expression, ff a function item, both under a scope; a maximal
   run of adjacent function items is in scope of all its members and of the rest of the block *)
Definition items_F4_f (fe : list ident -> expr -> bool) (ff : list ident -> fdef -> bool) :=
  fix go (sc : list ident) (pend : nat) (l : list item) {struct l} : bool :=
  match l with
  | [] => false                                  (* a block ends with an expression item *)
  | IExpr a :: t => fe sc a && match t with [] => true | _ => go sc 0%nat t end
  | ILet x a :: t | IVar x a :: t => fe sc a && go (x :: sc) 0%nat t
  | IFunc fd :: t =>
      match pend with
      | O => let sc' := map fd_name (fd :: run_funcs t) ++ sc in
             ff sc' fd && go sc' (length (run_funcs t)) t
      | S p => ff sc fd && go sc p t
      end
  end.

Section Frag.
Variable TL : list ident.

(* sc = the names in scope that are not top-level functions; own = the name of the function whose code
   this is when it is a named nested function *)
Fixpoint in_F4 (own : option ident) (sc : list ident) (e : expr) {struct e} : bool :=
  match e with
  | EInt z => int_lit_ok z
  | EBool _ => true
  | EVar x => mem_id x sc || mem_id x TL
  | ENeg a => negb (is_lit a) && in_F4 own sc a
  | ENot a => negb (is_lit a) && in_F4 own sc a
  | EBin op a b =>
      negb (is_lit a && is_lit b) && shift_ok op b && in_F4 own sc a && in_F4 own sc b
  | ECond c a b => negb (is_lit c) && in_F4 own sc c && in_F4 own sc a && in_F4 own sc b
  | EAssign (EVar x) r => mem_id x sc && int_shaped r && in_F4 own sc r
  | EAssign (EIndex a i) r => in_F4 own sc a && in_F4 own sc i && int_shaped r && in_F4 own sc r
  | EAssign (EField a _ _) r => in_F4 own sc a && int_shaped r && in_F4 own sc r
  | EField a _ _ => in_F4 own sc a
  | ERecNil _ => true
  | ERecNew _ es =>
      (fix all (l : list expr) : bool :=
         match l with [] => true | a :: t => in_F4 own sc a && all t end) es
  | EIndex a i => in_F4 own sc a && in_F4 own sc i
  | EArrLit es TInt =>
      match es with [] => false | _ => true end &&
      (fix all (l : list expr) : bool :=
         match l with [] => true | a :: t => in_F4 own sc a && all t end) es
  | EBlock items =>
      items_F4_f (in_F4 own) (fun sc fd => fd_in_F4 own sc KNamed fd) sc 0%nat items
  | EWhile c b => in_F4 own sc c && in_F4 own sc b
  | EDoWhile b c => in_F4 own sc b && in_F4 own sc c
  | EFor i c s b => in_F4 own sc i && in_F4 own sc c && in_F4 own sc s && in_F4 own sc b
  | EPrint a => in_F4 own sc a
  | ECall f args =>
      in_F4 own sc f &&
      (fix all (l : list expr) : bool :=
         match l with [] => true | a :: t => in_F4 own sc a && all t end) args
  | ELambda fd => fd_in_F4 own sc KLam fd
  | _ => false
  end
(* a function defined in code whose scope is sc (for a top-level function: own = None, sc = []) *)
with fd_in_F4 (own : option ident) (sc : list ident) (k : fkind) (fd : fdef) {struct fd} : bool :=
  match fd with
  | FDef name ps _ body cs ca =>
    let sc1 := param_names ps ++ sc in
    let own1 := match k with KNamed => Some name | _ => None end in
    let blk := items_F4_f (in_F4 own1) (fun sc fd => fd_in_F4 own1 sc KNamed fd) sc1 0%nat in
    blk body &&
    ((match cs, ca with [], None => true | _, _ => false end) ||
     (nst name (EBlock body) &&
      (fix gc (l : list (exn * list item)) : bool :=
         match l with [] => true | c :: t => blk (snd c) && gc t end) cs &&
      match ca with Some b => blk b | None => true end))
  end.

End Frag.

Fixpoint nodup_ids (l : list ident) : bool :=
  match l with [] => true | x :: t => negb (mem_id x t) && nodup_ids t end.

(* every bound name of the program: the top-level functions, then per function (nested ones included)
   its parameters, let/var names and named nested functions; the names the AST gives to function
   expressions *)
Definition all_names (p : program) : list ident :=
  tnames p ++ flat_map (fun kf => locals (snd kf)) (all_funcs p) ++
  flat_map (fun kf => match fst kf with KLam => [fd_name (snd kf)] | _ => [] end) (all_funcs p).

Definition names_ok (p : program) : bool := nodup_ids (all_names p).

Definition prog_in_F4 (p : program) : bool :=
  forallb (fd_in_F4 (tnames p) None [] KTop) (p_funcs p) &&
  names_ok p &&
  mem_id (p_main p) (tnames p).

(* the tie's level number -> fragment (harness/ocaml/compile4) *)
Definition prog_in_F (lv : nat) (p : program) : bool := prog_in_F4 p.

(* ==== the fragment of the PROOF (Src/CompileCorrect4*.v): in_F as in Compile3.v, extended step by step ==== *)

Definition f1_binop (op : binop) : bool :=
  match op with And | Or => false | _ => true end.

(* signatures of the program's functions: name, number of parameters *)
Definition fsigs := list (ident * nat).

Fixpoint fsig_lookup (f : ident) (FS : fsigs) : option nat :=
  match FS with [] => None | (g, n) :: t => if N.eqb f g then Some n else fsig_lookup f t end.

Definition is_fname (FS : fsigs) (x : ident) : bool :=
  match fsig_lookup x FS with Some _ => true | None => false end.

(* bound names must not hide a function (a let/var named like the enclosing function would also
   switch off the tail-call marking of front/tailrec.c).  A maximal run of adjacent function items: its names are
   pairwise different, hide nothing, and are in scope of every function of the run (whose free variables must
   all be in scope: they are captured when the closure is made) and of the rest of the block.
   The BODY of a nested function is not checked here but per function of the image (func_in_P). *)
Lemma fkind_eq_dec : forall a b : fkind, {a = b} + {a <> b}.
Proof. decide equality. Defined.

Definition kf_eq_dec : forall a b : fkind * fdef, {a = b} + {a <> b}.
Proof. decide equality; [apply fdef_eq_dec | apply fkind_eq_dec]. Defined.

(* the nested function definition is one of the functions of the image *)
Definition known (AF : list (fkind * fdef)) (k : fkind) (fd : fdef) : bool :=
  if in_dec kf_eq_dec (k, fd) AF then true else false.

Lemma known_nth : forall AF k fd, known AF k fd = true -> exists i, nth_error AF i = Some (k, fd).
Proof. intros AF k fd H. unfold known in H. destruct (in_dec kf_eq_dec (k, fd) AF) as [Hin|]; [|discriminate]. apply In_nth_error. exact Hin. Qed.

(* the names bound by `var x = e` with an int_shaped e, anywhere in the program (function expressions are functions of
   the image themselves): at level 6 these are the names that may be assigned to — every binder of such a name
   binds an int cell (items_F_f), and int cells stay int cells (the assigned value is int_shaped) *)
Fixpoint ivars_e (e : expr) {struct e} : list ident :=
  match e with
  | ENeg a | ENot a | EBNot a | EPrint a | EField a _ _ => ivars_e a
  | ERecNew _ es => (fix go (l : list expr) : list ident := match l with [] => [] | a :: t => ivars_e a ++ go t end) es
  | EBin _ a b | EWhile a b | EDoWhile a b | EIf a b | EAssign a b | EIndex a b => ivars_e a ++ ivars_e b
  | EArrLit es _ => (fix go (l : list expr) : list ident := match l with [] => [] | a :: t => ivars_e a ++ go t end) es
  | ECond c a b => ivars_e c ++ ivars_e a ++ ivars_e b
  | EFor i c s b => ivars_e i ++ ivars_e c ++ ivars_e s ++ ivars_e b
  | ECall f args =>
      ivars_e f ++ (fix go (l : list expr) : list ident := match l with [] => [] | a :: t => ivars_e a ++ go t end) args
  | EBlock items =>
      (fix go (l : list item) : list ident :=
         match l with
         | [] => []
         | IVar x a :: t => (if int_shaped a then [x] else []) ++ ivars_e a ++ go t
         | ILet _ a :: t | IExpr a :: t => ivars_e a ++ go t
         | IFunc _ :: t => go t
         end) items
  | _ => []
  end.

Definition int_vars (AF : list (fkind * fdef)) : list ident :=
  flat_map (fun kf => ivars_e (EBlock (fd_body (snd kf))) ++
                      flat_map (fun c => ivars_e (EBlock (snd c))) (fd_catches (snd kf)) ++
                      match fd_catch_all (snd kf) with Some b => ivars_e (EBlock b) | None => [] end) AF.

(* level <= 5, or the condition *)
Definition at6 (lv : nat) (b : bool) : bool := Nat.leb lv 5 || b.

(* an element of an array literal / a field of a record: int_shaped (a new int cell), or an int var in scope — its
   cell is SHARED with the array / record (a write through a[i] is a write to x) *)
Definition elem_ok (AF : list (fkind * fdef)) (sc : list ident) (e : expr) : bool :=
  int_shaped e || match e with EVar x => mem_id x sc && mem_id x (int_vars AF) | _ => false end.

Definition run_ok (FS : fsigs) (TL : list ident) (AF : list (fkind * fdef)) (self : option ident) (cpok : bool) (sc : list ident) (fds : list fdef) : bool :=
  let names := map fd_name fds in
  nodup_ids names &&
  forallb (fun x => negb (is_fname FS x) && negb (mem_id x sc) && negb (self_is self x)) names &&
  forallb (fun fd => known AF KNamed fd &&
                     forallb (fun y => mem_id y (names ++ sc) || (cpok && self_is self y)) (fvs_fd TL fd)) fds.
(* cpok (level 6): a function of the run may mention the running named nested function (captured by COPYGLOB;
   ID_FUNC_ADDR, a copy) *)

Definition items_F_f (FS : fsigs) (TL : list ident) (AF : list (fkind * fdef)) (self : option ident) (lv : nat) (fexpr : list ident -> expr -> bool) :=
  fix go (sc : list ident) (pend : nat) (l : list item) {struct l} : bool :=
  match l with
  | [] => false                                  (* a block ends with an expression item *)
  | IExpr e :: t => fexpr sc e && match t with [] => true | _ => go sc 0%nat t end
  | ILet x e :: t =>
      at6 lv (negb (mem_id x (int_vars AF))) &&
      (negb (is_fname FS x) && negb (self_is self x) && fexpr sc e && go (x :: sc) 0%nat t)
  | IVar x e :: t =>
      at6 lv (negb (mem_id x (int_vars AF)) || int_shaped e) &&
      (negb (is_fname FS x) && negb (self_is self x) && fexpr sc e && go (x :: sc) 0%nat t)
  | IFunc fd :: t =>
      match pend with
      | O => let fds := fd :: run_funcs t in
             Nat.leb 4 lv && (run_ok FS TL AF self (Nat.leb 6 lv) sc fds &&
                              at6 lv (forallb (fun g => negb (mem_id (fd_name g) (int_vars AF))) fds)) &&
             go (map fd_name fds ++ sc) (length (run_funcs t)) t
      | S p => go sc p t
      end
  end.

Fixpoint in_F (FS : fsigs) (TL : list ident) (AF : list (fkind * fdef)) (self : option ident) (lv : nat) (sc : list ident) (e : expr) {struct e} : bool :=
  match e with
  | EInt z => int_lit_ok z
  | EBool _ => true
  | EVar x => mem_id x sc || (Nat.leb 6 lv && (is_fname FS x || self_is self x))
                 (* level 6: the name of a top-level function / of the running nested function as a VALUE: a copy
                    of the function object *)
  | ENeg a => negb (is_lit a) && in_F FS TL AF self lv sc a
  | ENot a => negb (is_lit a) && in_F FS TL AF self lv sc a
  | EBin op a b =>
      (* level 8 (nil records exist): the right operand of == / != is int_shaped — Src/Eval.v compares two references
         of which one is nil, where the emitted OP_EQ_INT is stuck *)
      (Nat.leb lv 7 || match op with Eq | Ne => int_shaped b | _ => true end) &&
      ((f1_binop op || Nat.leb 2 lv) && negb (is_lit a && is_lit b) && shift_ok op b &&
       in_F FS TL AF self lv sc a && in_F FS TL AF self lv sc b)
  | ECond c a b => negb (is_lit c) && in_F FS TL AF self lv sc c && in_F FS TL AF self lv sc a && in_F FS TL AF self lv sc b
  | EAssign (EVar x) r => at6 lv (mem_id x (int_vars AF)) && mem_id x sc && int_shaped r && in_F FS TL AF self lv sc r
  | EAssign (EIndex a i) r =>          (* level 7: an element of a one-dimensional int array *)
      Nat.leb 7 lv && in_F FS TL AF self lv sc a && in_F FS TL AF self lv sc i && int_shaped r && in_F FS TL AF self lv sc r
  | EIndex a i => Nat.leb 7 lv && in_F FS TL AF self lv sc a && in_F FS TL AF self lv sc i
  | EAssign (EField a _ _) r =>        (* level 8: a field of a record *)
      Nat.leb 8 lv && in_F FS TL AF self lv sc a && int_shaped r && in_F FS TL AF self lv sc r
  | EField a _ _ => Nat.leb 8 lv && in_F FS TL AF self lv sc a
  | ERecNil _ => Nat.leb 8 lv
  | ERecNew _ es =>                    (* level 8: R(e1, …, en), every field int_shaped *)
      Nat.leb 8 lv && forallb (elem_ok AF sc) es &&
      (fix all (l : list expr) : bool :=
         match l with [] => true | a :: t => in_F FS TL AF self lv sc a && all t end) es
  | EArrLit es _ =>                    (* level 7: [e1, …, en] : int, n >= 1, every element int_shaped *)
      Nat.leb 7 lv && match es with [] => false | _ => true end && forallb (elem_ok AF sc) es &&
      (fix all (l : list expr) : bool :=
         match l with [] => true | a :: t => in_F FS TL AF self lv sc a && all t end) es
                 (* at level 6 only to a name bound by var x = <int_shaped>: Src/Eval.v is untyped, an assignment
                    through an alias of a function cell goes on there and is stuck on the machine *)
  | EBlock items => items_F_f FS TL AF self lv (in_F FS TL AF self lv) sc 0%nat items
  | EWhile c b => Nat.leb 2 lv && in_F FS TL AF self lv sc c && in_F FS TL AF self lv sc b
  | EDoWhile b c => Nat.leb 2 lv && in_F FS TL AF self lv sc b && in_F FS TL AF self lv sc c
  | EFor i c s b =>
      Nat.leb 2 lv && in_F FS TL AF self lv sc i && in_F FS TL AF self lv sc c && in_F FS TL AF self lv sc s && in_F FS TL AF self lv sc b
  | EPrint a => Nat.leb 2 lv && in_F FS TL AF self lv sc a
  | ECall f args =>
      Nat.leb 3 lv &&
      (fix all (l : list expr) : bool :=
         match l with [] => true | a :: t => in_F FS TL AF self lv sc a && all t end) args &&
      match f with
      | EVar g => match fsig_lookup g FS with
                  | Some n => Nat.eqb n (length args)      (* a top-level function, by name *)
                  | None => Nat.leb 4 lv && (mem_id g sc || self_is self g)
                                               (* a function value in a slot / captured; the running nested function *)
                  end
      | _ => Nat.leb 4 lv && in_F FS TL AF self lv sc f            (* any expression that yields a function value *)
      end
  | ELambda fd => Nat.leb 4 lv && known AF KLam fd &&
                  forallb (fun y => mem_id y sc || (Nat.leb 6 lv && self_is self y)) (fvs_fd TL fd)
  | _ => false
  end.

Definition items_F (FS : fsigs) (TL : list ident) (AF : list (fkind * fdef)) (self : option ident) (lv : nat) (sc : list ident) (l : list item) : bool :=
  items_F_f FS TL AF self lv (in_F FS TL AF self lv) sc 0%nat l.

Fixpoint args_F (FS : fsigs) (TL : list ident) (AF : list (fkind * fdef)) (self : option ident) (lv : nat) (sc : list ident) (l : list expr) : bool :=
  match l with [] => true | a :: t => in_F FS TL AF self lv sc a && args_F FS TL AF self lv sc t end.

(* a function of the proof's fragment, by kind: the body is checked under the parameters and — for a nested
   function — its free variables (the names its environment vector holds) — also its catch clauses; a function WITH catch clauses
   has no self call in tail position (as in F5: Src/Eval.v has no tail-call elimination) *)
Definition body_scope (TL : list ident) (k : fkind) (fd : fdef) : list ident :=
  param_names (fd_params fd) ++ match k with KTop => [] | _ => fvs_fd TL fd end.

Definition func_in_P (FS : fsigs) (TL : list ident) (AF : list (fkind * fdef)) (lv : nat) (kf : fkind * fdef) : bool :=
  items_F FS TL AF (fc_self (ctx_of TL (fst kf) (snd kf))) lv (body_scope TL (fst kf) (snd kf)) (fd_body (snd kf)) &&
  negb (mem_id (fd_name (snd kf)) (param_names (fd_params (snd kf)))) &&
  forallb (fun x => negb (is_fname FS x)) (param_names (fd_params (snd kf))) &&
  at6 lv (forallb (fun x => negb (mem_id x (int_vars AF))) (param_names (fd_params (snd kf)))) &&
  at6 lv (negb (mem_id (fd_name (snd kf)) (int_vars AF))) &&
  (no_catch (snd kf) ||
   (forallb (fun c => items_F FS TL AF (fc_self (ctx_of TL (fst kf) (snd kf))) lv (body_scope TL (fst kf) (snd kf)) (snd c))
            (fd_catches (snd kf)) &&
    match fd_catch_all (snd kf) with
    | Some b => items_F FS TL AF (fc_self (ctx_of TL (fst kf) (snd kf))) lv (body_scope TL (fst kf) (snd kf)) b
    | None => true
    end &&
    no_self_tail_fd (snd kf))).

(* a program of the proof's fragment (a subset of the tie's prog_in_F4): every function of the image is in the
   fragment, all function names are pairwise different, a nested function is not named like a top-level one and
   captures no name that is one, the entry function exists *)
Definition prog_sigs (p : program) : fsigs :=
  map (fun fd => (fd_name fd, length (fd_params fd))) (p_funcs p).

Definition prog_in_P (lv : nat) (p : program) : bool :=
  forallb (func_in_P (prog_sigs p) (tnames p) (all_funcs p) lv) (all_funcs p) &&
  forallb (fun kf => match fst kf with
                     | KTop => true
                     | _ => negb (is_fname (prog_sigs p) (fd_name (snd kf))) &&
                            forallb (fun x => negb (is_fname (prog_sigs p) x)) (fvs_fd (tnames p) (snd kf))
                     end) (all_funcs p) &&
  nodup_ids (fnames p) &&
  mem_id (p_main p) (tnames p) &&
  forallb (fun kf => match fst kf with
                     | KTop => if in_dec fdef_eq_dec (snd kf) (p_funcs p) then true else false
                     | _ => true
                     end) (all_funcs p).

(* ---- unfolding equations ---------------------------------------------------------------- *)

Definition compile_items0 (FT TL : list ident) (fc : fctx) (L : Z) (ce : cenv) (l : list item) : list rinstr :=
  compile_items FT TL fc L ce 0%nat l.

Lemma compile_items_nil : forall FT TL fc L ce, compile_items0 FT TL fc L ce [] = [].
Proof. reflexivity. Qed.
Lemma compile_items_expr : forall FT TL fc L ce e t, compile_items0 FT TL fc L ce (IExpr e :: t) =
  compile_expr FT TL fc L ce e ++
  match t with [] => [] | _ => ins BYTECODE_SLIDE 1 0 :: compile_items0 FT TL fc L ce t end.
Proof. intros. destruct t; reflexivity. Qed.
Lemma compile_items_let : forall FT TL fc L ce x e t, compile_items0 FT TL fc L ce (ILet x e :: t) =
  compile_expr FT TL fc L ce e ++ compile_items0 FT TL fc (L + 1) ((x, L + 1) :: ce) t.
Proof. reflexivity. Qed.
Lemma compile_items_var : forall FT TL fc L ce x e t, compile_items0 FT TL fc L ce (IVar x e :: t) =
  compile_expr FT TL fc L ce e ++ compile_items0 FT TL fc (L + 1) ((x, L + 1) :: ce) t.
Proof. reflexivity. Qed.
Lemma compile_block : forall FT TL fc L ce items, compile_expr FT TL fc L ce (EBlock items) =
  compile_items0 FT TL fc L ce items ++ block_end (nbinds items).
Proof. reflexivity. Qed.
Lemma compile_for : forall FT TL fc L ce i c st b, compile_expr FT TL fc L ce (EFor i c st b) =
  compile_expr FT TL fc L ce i ++ ins BYTECODE_SLIDE 1 0 ::
  compile_expr FT TL fc L ce (EWhile c (EBlock [IExpr b; IExpr st])).
Proof.
  intros. unfold compile_expr. cbn [cexpr compile_items_f nbinds block_end]. unfold block_end.
  simpl (0 <? 0). rewrite !app_nil_r. reflexivity.
Qed.

(* the items of a block whose last expression is in tail position of the function `self` *)
Definition compile_items_tl (FT TL : list ident) (fc : fctx) (self : option ident) (L : Z) (ce : cenv)
  (l : list item) : list rinstr :=
  compile_items_f (compile_expr FT TL fc) (cexpr FT TL fc self true) (closure_code FT TL fc) L ce 0%nat l.

Lemma compile_items_tl_let : forall FT TL fc self L ce x e t, compile_items_tl FT TL fc self L ce (ILet x e :: t) =
  compile_expr FT TL fc L ce e ++ compile_items_tl FT TL fc self (L + 1) ((x, L + 1) :: ce) t.
Proof. reflexivity. Qed.
Lemma compile_items_tl_var : forall FT TL fc self L ce x e t, compile_items_tl FT TL fc self L ce (IVar x e :: t) =
  compile_expr FT TL fc L ce e ++ compile_items_tl FT TL fc self (L + 1) ((x, L + 1) :: ce) t.
Proof. reflexivity. Qed.
Lemma compile_items_tl_last : forall FT TL fc self L ce e, compile_items_tl FT TL fc self L ce [IExpr e] =
  cexpr FT TL fc self true L ce e ++ [].
Proof. reflexivity. Qed.
Lemma compile_items_tl_expr : forall FT TL fc self L ce e it t, compile_items_tl FT TL fc self L ce (IExpr e :: it :: t) =
  compile_expr FT TL fc L ce e ++ ins BYTECODE_SLIDE 1 0 :: compile_items_tl FT TL fc self L ce (it :: t).
Proof. reflexivity. Qed.
Lemma cexpr_block_tl : forall FT TL fc self L ce items, cexpr FT TL fc self true L ce (EBlock items) =
  compile_items_tl FT TL fc self L ce items ++ block_end (nbinds items).
Proof. reflexivity. Qed.

(* without a self call in tail position the tail-position compilation is the plain one *)
Lemma nst_eq : forall FT TL fc self e L ce, nst self e = true ->
  cexpr FT TL fc (Some self) true L ce e = cexpr FT TL fc None false L ce e.
Proof.
  intros FT TL fc self. fix IH 1. intros e L ce H. destruct e; try reflexivity.
  - (* ECond *) cbn [nst] in H. apply andb_true_iff in H. destruct H as [H2 H3].
    cbn [cexpr]. rewrite (IH e2 L ce H2), (IH e3 L ce H3). reflexivity.
  - (* ECall *) destruct e; try reflexivity. cbn [nst] in H. cbn [cexpr].
    unfold self_is. apply negb_true_iff in H. rewrite H. reflexivity.
  - (* EBlock *) cbn [nst] in H. cbn [cexpr]. f_equal.
    generalize 0%nat as pend.
    revert L ce H. induction items as [|it t IHt]; intros L ce H pend; [reflexivity|].
    destruct it as [x e | x e | fd | e]; cbn [compile_items_f nst_items_f] in *.
    + f_equal. apply IHt. exact H.
    + f_equal. apply IHt. exact H.
    + destruct pend.
      * cbv zeta. f_equal. f_equal. f_equal. apply IHt. exact H.
      * f_equal. f_equal. apply IHt. exact H.
    + destruct t as [|it2 t2].
      * rewrite (IH e L ce H). reflexivity.
      * f_equal. f_equal. apply IHt. exact H.
Qed.

Lemma tail_none_eq : forall FT TL fc e L ce,
  cexpr FT TL fc None true L ce e = cexpr FT TL fc None false L ce e.
Proof.
  intros FT TL fc. fix IH 1. intros e L ce. destruct e; try reflexivity.
  - cbn [cexpr]. rewrite (IH e2 L ce), (IH e3 L ce). reflexivity.
  - cbn [cexpr]. destruct e; reflexivity.
  - cbn [cexpr]. f_equal. generalize 0%nat as pend.
    revert L ce. induction items as [|it t IHt]; intros L ce pend; [reflexivity|].
    destruct it as [x e | x e | fd | e]; cbn [compile_items_f] in *.
    + f_equal. apply IHt.
    + f_equal. apply IHt.
    + destruct pend.
      * cbv zeta. f_equal. f_equal. f_equal. apply IHt.
      * f_equal. f_equal. apply IHt.
    + destruct t as [|it2 t2].
      * rewrite (IH e L ce). reflexivity.
      * f_equal. f_equal. apply IHt.
Qed.

Lemma no_self_tail_body : forall FT TL k fd, no_self_tail_fd fd = true ->
  compile_body FT TL k fd = compile_expr FT TL (ctx_of TL k fd) 0 (param_env (fd_params fd) 0) (EBlock (fd_body fd)).
Proof.
  intros FT TL k fd H. unfold compile_body, compile_expr. destruct k; cbn [tail_self]; [apply nst_eq; exact H | apply nst_eq; exact H | apply tail_none_eq].
Qed.
