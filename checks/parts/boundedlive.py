"""C09, VM level: "a program whose live data stays bounded runs indefinitely in a fixed heap".

Metamorphic oracle on the real VM (no model needed): for loop-shaped programs whose live data is
bounded, the smallest heap that completes N iterations must also complete 10*N iterations (the
heap need is independent of the iteration count) — for every loop form: for / while / do-while,
self tail calls through ?:, if/else and blocks, closures called in a loop, strings and records
built and dropped per iteration.  A loop form in which collections never get a chance to run
(or garbage is never reclaimed) needs a heap proportional to N.
"""
import os

from lib import nevrun, vmcheck

SHAPES = {
    "for-int": "func main() -> int { var s = 0; var i = 0; for (i = 0; i < %N%; i = i + 1) { s = (s + i * 3) %% 1000 }; s }",
    "while-int": "func main() -> int { var s = 0; var i = 0; while (i < %N%) { s = (s + i * 3) %% 1000; i = i + 1 }; s }",
    "dowhile-int": "func main() -> int { var s = 0; var i = 0; do { s = (s + i * 3) %% 1000; i = i + 1 } while (i < %N%); s }",
    "tail-cond": "func loop(n : int, acc : int) -> int { n == 0 ? acc : loop(n - 1, (acc + n * 3) %% 1000) }\nfunc main() -> int { loop(%N%, 0) }",
    "tail-ifelse": "func loop(n : int, acc : int) -> int { if (n == 0) { acc } else { loop(n - 1, (acc + n * 3) %% 1000) } }\nfunc main() -> int { loop(%N%, 0) }",
    "tail-block": "func loop(n : int, acc : int) -> int { let k = n * 3; n == 0 ? acc : { let m = k + 1; loop(n - 1, (acc + m) %% 1000) } }\nfunc main() -> int { loop(%N%, 0) }",
    "tail-3params": "func loop(n : int, a : int, b : int) -> int { n == 0 ? a + b : loop(n - 1, b %% 1000, (a + b) %% 1000) }\nfunc main() -> int { loop(%N%, 0, 1) }",
    "call-in-loop": "func f(x : int) -> int { x * 2 + 1 }\nfunc main() -> int { var s = 0; var i = 0; while (i < %N%) { s = (s + f(i)) %% 1000; i = i + 1 }; s }",
    "closure-in-loop": "func mk(k : int) -> (int) -> int { let func (x : int) -> int { x + k } }\nfunc main() -> int { var s = 0; var i = 0; while (i < %N%) { let g = mk(i); s = (s + g(1)) %% 1000; i = i + 1 }; s }",
    "record-per-iter": "record P { x : int; y : int; }\nfunc main() -> int { var s = 0; var i = 0; while (i < %N%) { let p = P(i, i + 1); s = (s + p.x + p.y) %% 1000; i = i + 1 }; s }",
    "array-per-iter": "func main() -> int { var s = 0; var i = 0; while (i < %N%) { let t = [ i, i + 1, i + 2 ] : int; s = (s + t[1]) %% 1000; i = i + 1 }; s }",
    "string-per-iter": "func main() -> int { var s = 0; var i = 0; while (i < %N%) { let t = \"ab\" + i; s = (s + length(t)) %% 1000; i = i + 1 }; s }",
    "tail-with-record": "record P { x : int; }\nfunc loop(n : int, p : P) -> int { n == 0 ? p.x : loop(n - 1, P((p.x + n) %% 1000)) }\nfunc main() -> int { loop(%N%, P(0)) }",
}


def _outcome(drv, src, mem, stack=400, timeout=20):
    r = nevrun.run_batch(drv, [{"id": "x", "src": src, "mem": mem, "stack": stack}], timeout_per=timeout)
    rec = r.get("x")
    if rec is None:
        return "none", ""
    return nevrun.classify(rec), rec.get("detail", "")


def _need(drv, src, lo=40, hi=60000):
    """smallest heap size (cells) with which the program returns a result; None if not even hi"""
    cls, det = _outcome(drv, src, hi)
    if cls != "result":
        return None, cls, det
    ref = det
    while lo < hi:
        mid = (lo + hi) // 2
        c, d = _outcome(drv, src, mid)
        if c == "result" and d == ref:
            hi = mid
        else:
            lo = mid + 1
    return lo, "result", ref


def run_boundedlive(ctx, drv):
    n1 = 400 if ctx.tier == "quick" else 2000
    factor = 10 if ctx.tier == "quick" else 25
    names = sorted(SHAPES)

    def one(name):
        tmpl = SHAPES[name].replace("%%", "%")
        a = _need(drv, tmpl.replace("%N%", str(n1)))
        if a[0] is None:
            return name, a, None, None
        # the heap that suffices for n1 iterations (+ a small margin for rounding of the 0.8 trigger)
        m = a[0] + 8
        big = tmpl.replace("%N%", str(n1 * factor))
        cls, det = _outcome(drv, big, m, timeout=60)
        return name, a, (m, cls, det), big

    res = vmcheck.pmap(one, names, workers=min(16, len(names)))
    table = {}
    for name, a, b, big in res:
        if a[0] is None:
            ctx.correspondence_broken("boundedlive:%s" % name, {"what": "does not complete even with a 60000-cell heap", "class": a[1]})
            continue
        m, cls, det = b
        table[name] = {"need_at_%d" % n1: a[0], "heap_used_for_%dx" % factor: m, "outcome": cls}
        ctx.count(evaluations=2, nontrivial=1)
        if cls.startswith("limit:heap"):
            ctx.violation("bounded-live:heap-grows-with-iterations:%s" % name,
                          "loop form `%s`: %d iterations complete in a %d-cell heap but %d iterations of the same bounded-live "
                          "loop run out of memory in %d cells: garbage is not reclaimed (or no collection ever runs) in this loop form"
                          % (name, n1, a[0], n1 * factor, m),
                          {"program": big, "mem": m, "iterations": n1 * factor, "need_for_%d_iterations" % n1: a[0]})
        elif cls.startswith("CRASH"):
            ctx.violation("bounded-live:crash:%s" % name, "loop form `%s` at heap %d: %s" % (name, m, cls),
                          {"program": big, "mem": m, "class": cls})
        elif cls != "result":
            ctx.correspondence_broken("boundedlive:%s" % name, {"outcome": cls, "mem": m})
    ctx.notes["bounded_live"] = table
    return table
