(* C17 (continued) — the library handle cache back/dlcache.c (mechanism "dlcache_get_handle").

   Model: Hash/OpenTabModel.v (open-addressing table: linear probing from hash % size with the
   `times++ > size` give-up, rehash in index order) + Hash/DlCacheModel.v (dlcache_new /
   dlcache_add_dl / dlcache_lookup / dlcache_get_handle / dlcache_resize, operation sequences, the
   association map `afind`/`arun` they refine to).  Every theorem is stated for EVERY hash function
   `hash : name -> N` and every name type with a correct equality test; operation sequences have
   no length bound.  The tie to the C code is the correspondence run of checks/parts/hashtab.py
   (extracted model vs the real functions, full table compared after every operation).
   Only statements here; every proof is `exact <lemma>` into Hash/DlCacheProofs.v. *)
From Coq Require Import List Arith NArith Bool Permutation.
From NV Require Import Hash.OpenTabModel Hash.OpenTabProofs Hash.DlCacheModel Hash.DlCacheProofs.
Import ListNotations.

(* Refinement.  From dlcache_new(size), size >= 1 (the VM uses DEFAULT_DLCACHE_SIZE = 16), with or
   without the "host" entry, any sequence of dlcache_get_handle / dlcache_lookup operations:
   the model never aborts (no assert(0), no give-up, no division by zero), every operation returns
   what the association list returns, and afterwards every lookup agrees with the list. *)
Theorem dlcache_refines_map :
  forall (name : Type) (name_eqb : name -> name -> bool) (hash : name -> N) (V : Type),
    (forall a b, name_eqb a b = true <-> a = b) ->
    forall (size : nat) (host : option (name * V)) (ops : list (op name V)),
      1 <= size ->
      exists c0 c,
        dlcache_new name name_eqb hash V size host = Ok c0 /\
        run name name_eqb hash V c0 ops = Ok (c, snd (arun name name_eqb V (amap_of_host name V host) ops)) /\
        forall n, dlcache_lookup name name_eqb hash V c n =
                  afind name name_eqb V (fst (arun name name_eqb V (amap_of_host name V host) ops)) n.
Proof. exact DlCacheProofs.dlcache_refines_map. Qed.
Print Assumptions dlcache_refines_map.

(* On a reachable cache every further operation succeeds: the table is never full when
   dlcache_entry_add_dl runs, so `assert(0); return;` and the lookup give-up are unreachable. *)
Theorem dlcache_step_total :
  forall (name : Type) (name_eqb : name -> name -> bool) (hash : name -> N) (V : Type),
    (forall a b, name_eqb a b = true <-> a = b) ->
    forall (c : dlcache name V) (o : op name V),
      reachable name name_eqb hash V c ->
      exists c' r, step name name_eqb hash V c o = Ok (c', r) /\ reachable name name_eqb hash V c'.
Proof. exact DlCacheProofs.reachable_step_total. Qed.
Print Assumptions dlcache_step_total.

Theorem dlcache_lookup_never_gives_up :
  forall (name : Type) (name_eqb : name -> name -> bool) (hash : name -> N) (V : Type),
    (forall a b, name_eqb a b = true <-> a = b) ->
    forall (c : dlcache name V) (n : name),
      reachable name name_eqb hash V c ->
      tab_lookup name name_eqb hash V c n = Miss \/
      exists i h, tab_lookup name name_eqb hash V c n = Hit i /\ slot_at name V (t_entries c) i = Some (n, h).
Proof. exact DlCacheProofs.lookup_never_gives_up. Qed.
Print Assumptions dlcache_lookup_never_gives_up.

Theorem dlcache_add_never_gives_up :
  forall (name : Type) (name_eqb : name -> name -> bool) (hash : name -> N) (V : Type),
    (forall a b, name_eqb a b = true <-> a = b) ->
    forall (c : dlcache name V) (n : name) (h : V),
      reachable name name_eqb hash V c ->
      exists es, entry_add name name_eqb hash V false (t_entries c) (t_size c) n h = AddOk es.
Proof. exact DlCacheProofs.add_never_gives_up. Qed.
Print Assumptions dlcache_add_never_gives_up.

(* count = number of occupied slots <= size*3/4 < size (C integer arithmetic) in every reachable state *)
Theorem dlcache_count_invariant :
  forall (name : Type) (name_eqb : name -> name -> bool) (hash : name -> N) (V : Type),
    (forall a b, name_eqb a b = true <-> a = b) ->
    forall c : dlcache name V,
      reachable name name_eqb hash V c ->
      1 <= t_size c /\ length (t_entries c) = t_size c /\
      t_count c = nocc name V (t_entries c) /\ t_count c <= t_size c * 3 / 4 /\ t_size c * 3 / 4 < t_size c.
Proof. exact DlCacheProofs.reachable_inv. Qed.
Print Assumptions dlcache_count_invariant.

(* dlcache_get_handle on an uncached name whose dlopen succeeds caches exactly that handle ... *)
Theorem dlcache_get_handle_caches :
  forall (name : Type) (name_eqb : name -> name -> bool) (hash : name -> N) (V : Type),
    (forall a b, name_eqb a b = true <-> a = b) ->
    forall (c : dlcache name V) (n : name) (h : V),
      reachable name name_eqb hash V c -> dlcache_lookup name name_eqb hash V c n = None ->
      exists c', dlcache_get_handle name name_eqb hash V c n (Some h) = Ok (c', Some h) /\
                 dlcache_lookup name name_eqb hash V c' n = Some h /\ reachable name name_eqb hash V c'.
Proof. exact DlCacheProofs.get_handle_caches. Qed.
Print Assumptions dlcache_get_handle_caches.

(* ... a failing dlopen caches nothing ... *)
Theorem dlcache_get_handle_failed_dlopen :
  forall (name : Type) (name_eqb : name -> name -> bool) (hash : name -> N) (V : Type),
    (forall a b, name_eqb a b = true <-> a = b) ->
    forall (c : dlcache name V) (n : name),
      reachable name name_eqb hash V c -> dlcache_lookup name name_eqb hash V c n = None ->
      dlcache_get_handle name name_eqb hash V c n None = Ok (c, None).
Proof. exact DlCacheProofs.get_handle_failed_dlopen. Qed.
Print Assumptions dlcache_get_handle_failed_dlopen.

(* ... and a name that yields a handle yields the SAME handle after any further operations, however
   often the table grows in between: the handle stored when the name was first added. *)
Theorem dlcache_handle_stable :
  forall (name : Type) (name_eqb : name -> name -> bool) (hash : name -> N) (V : Type),
    (forall a b, name_eqb a b = true <-> a = b) ->
    forall (c : dlcache name V) (n : name) (h : V) (ops : list (op name V)),
      reachable name name_eqb hash V c -> dlcache_lookup name name_eqb hash V c n = Some h ->
      exists c' rs, run name name_eqb hash V c ops = Ok (c', rs) /\ dlcache_lookup name name_eqb hash V c' n = Some h.
Proof. exact DlCacheProofs.handle_stable. Qed.
Print Assumptions dlcache_handle_stable.

(* a name that is neither the host entry nor the subject of a successful get_handle is not found *)
Theorem dlcache_never_added_not_found :
  forall (name : Type) (name_eqb : name -> name -> bool) (hash : name -> N) (V : Type),
    (forall a b, name_eqb a b = true <-> a = b) ->
    forall (size : nat) (host : option (name * V)) (ops : list (op name V))
           (c0 c : dlcache name V) (rs : list (option V)) (n : name),
      1 <= size -> dlcache_new name name_eqb hash V size host = Ok c0 ->
      run name name_eqb hash V c0 ops = Ok (c, rs) ->
      (forall h, host <> Some (n, h)) -> ~ In n (added_names name V ops) ->
      dlcache_lookup name name_eqb hash V c n = None.
Proof. exact DlCacheProofs.never_added_not_found. Qed.
Print Assumptions dlcache_never_added_not_found.

(* dlcache_entry_resize into a fresh array with room for the entries: every (name, handle) pair of
   the old array is in the new one (and nothing else); with distinct names every lookup in the new
   array yields the handle the old array held.  (The lemma a wrong field in the rehash loop breaks.) *)
Theorem dlcache_entry_resize_preserves_map :
  forall (name : Type) (name_eqb : name -> name -> bool) (hash : name -> N) (V : Type),
    (forall a b, name_eqb a b = true <-> a = b) ->
    forall (old : entries name V) (size' : nat),
      nocc name V old < size' ->
      exists new,
        entry_resize name name_eqb hash V false old (entry_new name V size') size' = AddOk new /\
        length new = size' /\
        Permutation (contents name V new) (contents name V old) /\
        (NoDup (map fst (contents name V old)) ->
         forall n, lookup_val name name_eqb hash V new size' n = afind name name_eqb V (contents name V old) n).
Proof. exact DlCacheProofs.entry_resize_preserves_map. Qed.
Print Assumptions dlcache_entry_resize_preserves_map.

(* dlcache_resize: nothing happens unless count > size*3/4; otherwise the size doubles, the count
   stays, the pairs are preserved and lookups agree with the old contents *)
Theorem dlcache_resize_preserves_map :
  forall (name : Type) (name_eqb : name -> name -> bool) (hash : name -> N) (V : Type),
    (forall a b, name_eqb a b = true <-> a = b) ->
    forall c : dlcache name V,
      0 < t_size c -> length (t_entries c) = t_size c ->
      exists c',
        dlcache_resize name name_eqb hash V c = Ok c' /\
        Permutation (contents name V (t_entries c')) (contents name V (t_entries c)) /\
        t_count c' = t_count c /\
        (t_size c * 3 / 4 < t_count c ->
         t_size c' = t_size c * 2 /\
         (NoDup (map fst (contents name V (t_entries c))) ->
          forall n, dlcache_lookup name name_eqb hash V c' n = afind name name_eqb V (contents name V (t_entries c)) n)) /\
        (t_count c <= t_size c * 3 / 4 -> c' = c).
Proof. exact DlCacheProofs.dlcache_resize_preserves_map. Qed.
Print Assumptions dlcache_resize_preserves_map.

(* dlcache_add_dl used directly, duplicate names allowed: every pair is stored (two entries for a
   name added twice), the count/threshold invariant holds, nothing aborts, and a lookup yields ONE OF
   the handles added under the name ... *)
Theorem dlcache_add_dl_sequences :
  forall (name : Type) (name_eqb : name -> name -> bool) (hash : name -> N) (V : Type),
    (forall a b, name_eqb a b = true <-> a = b) ->
    forall (size : nat) (host : option (name * V)) (l : list (name * V)),
      1 <= size ->
      exists c0 c,
        dlcache_new name name_eqb hash V size host = Ok c0 /\
        run_adds name name_eqb hash V c0 l = Ok c /\
        Permutation (contents name V (t_entries c)) (amap_of_host name V host ++ l) /\
        t_count c = length (amap_of_host name V host ++ l) /\
        t_count c <= t_size c * 3 / 4 /\
        forall n, match dlcache_lookup name name_eqb hash V c n with
                  | Some h => In (n, h) (amap_of_host name V host ++ l)
                  | None => ~ In n (map fst (amap_of_host name V host ++ l))
                  end.
Proof. exact DlCacheProofs.add_dl_sequences. Qed.
Print Assumptions dlcache_add_dl_sequences.

(* ... but NOT always the first one: with the real hash, dlcache_new(2); add "b"->10; add "b"->20
   looks up 10; one more add grows the table and the lookup yields 20 (the rehash walks the old array
   in index order and the second copy had wrapped around to a lower index).  Replayed on the C code:
   same result.  Unreachable through dlcache_get_handle, which never adds a cached name. *)
Theorem dlcache_dup_first_wins_refuted :
  exists c0 c1 c2,
    dl_new 2 (Some (name_host, 1%N)) = Ok c0 /\
    run_adds cname cname_eqb hash_string N c0 [(name_b, 10%N); (name_b, 20%N)] = Ok c1 /\
    dlcache_lookup cname cname_eqb hash_string N c1 name_b = Some 10%N /\
    dl_add_dl c1 name_c 30%N = Ok c2 /\
    dlcache_lookup cname cname_eqb hash_string N c2 name_b = Some 20%N.
Proof. exact DlCacheProofs.dup_first_wins_refuted. Qed.
Print Assumptions dlcache_dup_first_wins_refuted.

(* size 0 is outside the precondition: dlcache_new(0) computes hash % 0 while caching "host" *)
Theorem dlcache_new_size0_refuted :
  forall (name : Type) (name_eqb : name -> name -> bool) (hash : name -> N) (V : Type) (p : name * V),
    dlcache_new name name_eqb hash V 0 (Some p) = DivZero.
Proof. exact DlCacheProofs.dlcache_new_size0_refuted. Qed.
Print Assumptions dlcache_new_size0_refuted.

(* the hypotheses are satisfiable: the instance run against the C code (C strings compared by
   content, front/hash.c) has a correct equality test; a reachable cache that has grown three times (2 -> 4 -> 8 -> 16)
   and still returns the first library's handle *)
Example cname_eqb_correct : forall a b, cname_eqb a b = true <-> a = b.
Proof. exact DlCacheProofs.cname_eqb_spec. Qed.

Example reachable_example :
  exists c0 c rs,
    dl_new 2 (Some (name_host, 1%N)) = Ok c0 /\
    run cname cname_eqb hash_string N c0
        (map (fun k => OGet [N.of_nat k] (Some (N.of_nat (100 + k)))) (seq 97 6)) = Ok (c, rs) /\
    t_size c = 16 /\ t_count c = 7 /\
    dlcache_lookup cname cname_eqb hash_string N c [97%N] = Some 197%N /\
    dlcache_lookup cname cname_eqb hash_string N c name_host = Some 1%N.
Proof. do 3 eexists. vm_compute. repeat split; reflexivity. Qed.
