"""Generated family of fault programs for property C03 (exception delivery).

A program is built from a tiny AST (ints only; every fault kind of the VM is wrapped in an
int-valued expression `Flt(kind, trigger)` that raises iff the trigger evaluates to 0) and is
both pretty-printed to Never source and evaluated by `Interp`, a direct transcription of the
property:

  * a failing operation yields no value: nothing further of the enclosing expression / call /
    block is evaluated (arguments are evaluated right to left, binary operands left to right);
  * control passes to the first matching catch clause of the innermost active function that
    has one, searching outward through the callers; the clause runs with the function's
    parameters (same cells: assignments made before the fault are visible) and none of its
    locals; its value is the function's result; an exception raised inside a clause is offered
    to the later clauses of the same function only, then to the callers;
  * no clause anywhere: `unhandled <name> exception`, non-zero status.

So the expected printed markers / result / unhandled report of every program are known in
closed form from the template, independently of the Coq models and of the implementation.
"""
import random

# ------------------------------------------------------------------ fault kinds

HELPERS = r'''record R { x : int; }
extern "libnosuch_c03.so" func nosuch(a : int) -> int
extern "libnosuch_c03.so" func nosuch0() -> int
func pm(v : int) -> int { print(v); v }
func id3(x : int, y : int, z : int) -> int { x + y + z }
func nilr() -> R { nil }
func prec(t : int) -> R { if (t == 0) { nilr() } else { R(t * 7) } }
func garr() -> [_] : int { [ 10, 20, 30 ] : int }
func gstr() -> string { "abc" }
func gy2() -> [_] : int { [ 1, 2 ] : int }
func parr(t : int) -> [_] : int { var a = {[ 2 ]} : [_] : int; a[1] = [ 5, 6, 7 ] : int; a[t == 0 ? 0 : 1] }
func pstr(t : int) -> string { var a = {[ 2 ]} : string; a[1] = "hello"; a[t == 0 ? 0 : 1] }
func inc1(a : int) -> int { a + 1 }
func pfun(t : int) -> (int) -> int { var a = {[ 2 ]} : (int) -> int; a[1] = inc1; a[t == 0 ? 0 : 1] }
func mk(t : int) -> [_] : int { {[ t == 0 ? 3 : 2 ]} : int }
func first(a[D] : int) -> int { a[0] + 4 }
func pffi(t : int) -> int { t == 0 ? nosuch(t) : 6 }
func pffi0(t : int) -> int { t == 0 ? nosuch0() : 6 }
func zero() -> int { 0 }
'''

# kind -> (exception name, source template over the trigger text, value for trigger T in 1..3)
KINDS = {
    "div":      ("division_by_zero",    lambda t: "(60 / (%s))" % t,                     lambda T: 60 // T),
    "mod":      ("division_by_zero",    lambda t: "(61 %% (%s))" % t,                    lambda T: 61 % T),
    "logdiv":   ("division_by_zero",    lambda t: "(log((%s) + 0.0) < 100.0 ? 9 : 8)" % t, lambda T: 9),
    "arroob":   ("index_out_of_bounds", lambda t: "garr()[3 - (%s)]" % t,                lambda T: [10, 20, 30][3 - T]),
    "stroob":   ("index_out_of_bounds", lambda t: "ord(gstr()[3 - (%s)])" % t,           lambda T: ord("abc"[3 - T])),
    "nilrec":   ("nil_pointer",         lambda t: "prec(%s).x" % t,                      lambda T: 7 * T),
    "nilarr":   ("nil_pointer",         lambda t: "parr(%s)[0]" % t,                     lambda T: 5),
    "nilstr":   ("nil_pointer",         lambda t: "length(pstr(%s))" % t,                lambda T: 5),
    "nilfunc":  ("nil_pointer",         lambda t: "pfun(%s)(4)" % t,                     lambda T: 5),
    "arrsize":  ("wrong_array_size",    lambda t: "first(mk(%s) + gy2())" % t,           lambda T: 5),
    "invalid":  ("invalid_domain",      lambda t: "(sqrt((%s) - 0.5) > 0.0 ? 9 : 8)" % t, lambda T: 9),
    "ffi":      ("ffi_fail",            lambda t: "pffi(%s)" % t,                        lambda T: 6),
    "ffi0":     ("ffi_fail",            lambda t: "pffi0(%s)" % t,                       lambda T: 6),
}
EXC_NAMES = ["division_by_zero", "wrong_array_size", "index_out_of_bounds", "invalid_domain",
             "nil_pointer", "ffi_fail"]


# ---- operation history x built-in -------------------------------------------------------------------
# Every built-in goes through back/libvm.c libvm_execute_build_in, which turns the floating-point status
# flags left by the C library function into the exception of the call.  Decision rule (C99 Annex F
# classification of the built-in's OWN result; the entries are confirmed by the runs with the empty
# prefix):
#   invalid_domain    domain error: sqrt(x < 0), log(x < 0), pow(x < 0, non-integer), sin/cos/tan(+-inf)
#   division_by_zero  pole error:   log(0), pow(0, y < 0)
#   overflow          finite arguments, result magnitude above FLT_MAX: exp(1000), pow(10, 100)
#   underflow         non-zero result below FLT_MIN (subnormal or 0): exp(-1000), exp(-100), pow(10, -100),
#                     sin/tan(subnormal)
#   otherwise         no exception, the value is delivered (quiet nan / inf arguments propagate: sqrt(inf),
#                     exp(+-inf), log(inf), f(nan), pow(nan, 0) = 1; results that are merely inexact)
#   print*, str*, ord, chr, length, assert* never fail on non-nil arguments
# The outcome of a call is a function of its arguments only: whatever float / double arithmetic ran
# before it (overflow to inf, underflow, inexact, nan from inf - inf, 0 * inf, inf / inf, nan comparisons,
# conversions, earlier built-ins that failed and were caught) raises no exception of the language and must
# not change what the built-in does.
FBIG = "1" + "0" * 30 + ".0"            # 1e30
FMAX = "3" + "0" * 38 + ".0"            # 3e38 (finite in single precision)
FTINY = "0." + "0" * 29 + "1"           # 1e-30
FEPS = "0." + "0" * 9 + "1"             # 1e-10
DBIG = "1" + "0" * 200 + ".0d"          # 1e200 (double)

HB_HELPERS = """func fid(x : float) -> float { x }
func fbig() -> float { %s }
func fmax() -> float { %s }
func ftiny() -> float { %s }
func feps() -> float { %s }
func dbig() -> double { %s }
func fmul(x : float, y : float) -> float { x * y }
func finf() -> float { fmul(fbig(), fbig()) }
func fnan() -> float { let i = finf(); i - i }
func fden() -> float { fmul(ftiny(), feps()) }
func sel(t : int, a : float, b : float) -> float { t == 0 ? a : b }
func toint(n : int) -> int { n }
func pxlog0() -> int { log(fid(0.0)) > 0.0 ? 1 : 2 } catch (division_by_zero) { 0 }
func pxexpbig() -> int { exp(fid(1000.0)) > 0.0 ? 1 : 2 } catch (overflow) { 0 }
func pxsqrtneg() -> int { sqrt(fid(0.0 - 1.0)) > 0.0 ? 1 : 2 } catch (invalid_domain) { 0 }
func pxintdiv() -> int { 1 / zero() } catch (division_by_zero) { 0 }
""" % (FBIG, FMAX, FTINY, FEPS, DBIG)

# prefix -> statements (float / double arithmetic that raises no exception of the language)
HB_PREFIX = {
    "none":               [],
    "exact":              ["let hb1 = fid(1.5) + fid(2.25)"],
    "inexact-div":        ["let hb1 = fid(1.0) / fid(3.0)"],
    "inexact-int2float":  ["let hb1 = (zero() + 16777217) + fid(0.5)"],
    "inexact-float2int":  ["let hb1 = toint(fid(2.5))"],
    "overflow-mul":       ["let hb1 = fbig() * fbig()"],
    "overflow-add":       ["let hb1 = fmax() + fmax()"],
    "overflow-double":    ["let hb1 = dbig() * dbig()"],
    "overflow-array":     ["let hb1 = [ fmax() ] : float + [ fmax() ] : float"],
    "overflow-loop":      ["var hb1 = fid(1.0) * fbig()", "var hb2 = 0", "while (hb2 < 3) { hb1 = hb1 * hb1; hb2 = hb2 + 1 }"],
    "overflow-in-callee": ["let hb1 = finf()"],
    "underflow-zero":     ["let hb1 = ftiny() * ftiny()"],
    "underflow-denormal": ["let hb1 = ftiny() * feps()"],
    "nan-inf-minus-inf":  ["let hb1 = fbig() * fbig()", "let hb2 = hb1 - hb1"],
    "nan-zero-times-inf": ["let hb1 = finf() * fid(0.0)"],
    "nan-inf-div-inf":    ["let hb1 = finf() / finf()"],
    "nan-compare":        ["let hb1 = (fnan() < fid(1.0)) ? 1 : 2"],
    "caught-log0":        ["let hb1 = pxlog0()"],
    "caught-exp-overflow": ["let hb1 = pxexpbig()"],
    "caught-sqrt-neg":    ["let hb1 = pxsqrtneg()"],
    "caught-int-div":     ["let hb1 = pxintdiv()"],
}

# built-in -> (failing argument classes [(class, args, exception)], non-failing [(class, args, check on hbr)])
HB_MATH = {
    "sqrt": ([("neg", ["fid(0.0 - 1.0)"], "invalid_domain"), ("neginf", ["0.0 - finf()"], "invalid_domain")],
             [("four", ["fid(4.0)"], "hbr == 2.0"), ("two", ["fid(2.0)"], "hbr > 1.41 && hbr < 1.42"),
              ("zero", ["fid(0.0)"], "hbr == 0.0"), ("inf", ["finf()"], "hbr > fbig()"), ("nan", ["fnan()"], "hbr != hbr"),
              ("denormal", ["fden()"], "hbr > 0.0")]),
    "log":  ([("zero", ["fid(0.0)"], "division_by_zero"), ("neg", ["fid(0.0 - 1.0)"], "invalid_domain")],
             [("one", ["fid(1.0)"], "hbr == 0.0"), ("ten", ["fid(10.0)"], "hbr > 2.30 && hbr < 2.31"),
              ("inf", ["finf()"], "hbr > fbig()"), ("nan", ["fnan()"], "hbr != hbr"), ("denormal", ["fden()"], "hbr < 0.0 - 87.0")]),
    "exp":  ([("big", ["fid(1000.0)"], "overflow"), ("negbig", ["fid(0.0 - 1000.0)"], "underflow"),
              ("to-denormal", ["fid(0.0 - 100.0)"], "underflow")],
             [("zero", ["fid(0.0)"], "hbr == 1.0"), ("one", ["fid(1.0)"], "hbr > 2.71 && hbr < 2.72"),
              ("inf", ["finf()"], "hbr > fbig()"), ("neginf", ["0.0 - finf()"], "hbr == 0.0"), ("nan", ["fnan()"], "hbr != hbr"),
              ("denormal", ["fden()"], "hbr == 1.0")]),
    "pow":  ([("zero-neg", ["fid(0.0)", "fid(0.0 - 1.0)"], "division_by_zero"), ("neg-frac", ["fid(0.0 - 1.0)", "fid(0.5)"], "invalid_domain"),
              ("big", ["fid(10.0)", "fid(100.0)"], "overflow"), ("small", ["fid(10.0)", "fid(0.0 - 100.0)"], "underflow")],
             [("cube", ["fid(2.0)", "fid(3.0)"], "hbr == 8.0"), ("root", ["fid(2.0)", "fid(0.5)"], "hbr > 1.41 && hbr < 1.42"),
              ("inf-one", ["finf()", "fid(1.0)"], "hbr > fbig()"), ("nan-zero", ["fnan()", "fid(0.0)"], "hbr == 1.0"),
              ("nan-one", ["fnan()", "fid(1.0)"], "hbr != hbr")]),
    "sin":  ([("inf", ["finf()"], "invalid_domain"), ("denormal", ["fden()"], "underflow")],
             [("zero", ["fid(0.0)"], "hbr == 0.0"), ("one", ["fid(1.0)"], "hbr > 0.84 && hbr < 0.85"), ("nan", ["fnan()"], "hbr != hbr"),
              ("big", ["fbig()"], "hbr >= 0.0 - 1.0 && hbr <= 1.0")]),
    "cos":  ([("inf", ["finf()"], "invalid_domain"), ("neginf", ["0.0 - finf()"], "invalid_domain")],
             [("zero", ["fid(0.0)"], "hbr == 1.0"), ("one", ["fid(1.0)"], "hbr > 0.54 && hbr < 0.55"), ("nan", ["fnan()"], "hbr != hbr"),
              ("denormal", ["fden()"], "hbr == 1.0")]),
    "tan":  ([("inf", ["finf()"], "invalid_domain"), ("denormal", ["fden()"], "underflow")],
             [("zero", ["fid(0.0)"], "hbr == 0.0"), ("one", ["fid(1.0)"], "hbr > 1.55 && hbr < 1.56"), ("nan", ["fnan()"], "hbr != hbr")]),
}
# built-ins that never fail: (name, statements ending in the binding of hbr, check, what they print as a line of digits)
HB_OTHER = [
    ("print",       ["let hbr = print(zero() + 4321)"], "hbr == 4321", [4321]),
    ("printl",      ["let hbr = printl(4322L)"], "hbr == 4322L", [4322]),
    ("printb",      ["let hbr = printb(zero() == 0)"], "hbr", [1]),
    ("printf",      ["let hbr = printf(fid(1.5))"], "hbr == 1.5", []),
    ("printf-inf",  ["let hbr = printf(finf())"], "hbr > fbig()", []),
    ("printf-nan",  ["let hbr = printf(fnan())"], "hbr != hbr", []),
    ("printf-denormal", ["let hbr = printf(fden())"], "hbr > 0.0", []),
    ("printd",      ["let hbr = printd(2.5d)"], "hbr == 2.5d", []),
    ("printc",      ["let hbr = printc('z')", "let hbs = prints(\"\\n\")"], "hbr == 'z'", []),
    ("prints",      ["let hbr = prints(\"zz\\n\")"], "length(hbr) == 3", []),
    ("str",         ["let hbr = str(zero() + 12)"], "length(hbr) == 2", []),
    ("strf",        ["let hbr = strf(fid(1.5))"], "length(hbr) > 0", []),
    ("strf-inf",    ["let hbr = strf(finf())"], "length(hbr) > 0", []),
    ("ord",         ["let hbr = ord('a')"], "hbr == 97", []),
    ("chr",         ["let hbr = chr(zero() + 65)"], "hbr == 'A'", []),
    ("length",      ["let hbr = length(gstr())"], "hbr == 3", []),
    ("assert",      ["let hbr = assert(zero() == 0)"], "hbr", []),
    ("assertf",     ["let hbr = assertf(fid(0.0), 0.1)"], "hbr == 1", []),
]
HB_PLACEMENTS = ["before-arguments", "after-arguments", "start-of-main", "in-caller"]


def hb_pairs():
    """-> [(builtin, failing class | None, non-failing class | None)]: every class of every built-in occurs"""
    out = []
    for b, (fs, os_) in HB_MATH.items():
        for i in range(max(len(fs), len(os_))):
            out.append((b, fs[i % len(fs)], os_[i % len(os_)]))
    for name, stmts, chk, marks in HB_OTHER:
        out.append((name, None, (name, stmts, chk, marks)))
    return out


def hb_kind(pair, prefix, placement):
    """register (once) the fault kind `built-in call after prefix`; -> its name.  Trigger 0 selects the
    failing argument class, any other trigger the non-failing one."""
    b, f, o = pair
    name = "hb:%s:%s/%s:%s:%s" % (b, f[0] if f else "-", o[0] if b in HB_MATH else "-", prefix, placement)
    if name in KINDS:
        return name
    pfx = "".join(st + "; " for st in HB_PREFIX[prefix]) if placement in ("before-arguments", "after-arguments") else ""
    if b in HB_MATH:
        n = len(o[1])

        def tmpl(t, f=f, o=o, n=n, b=b, pfx=pfx):
            args = "".join("let hbx%d = sel(%s, %s, %s); " % (i, t, (f[1][i] if f else o[1][i]), o[1][i]) for i in range(n))
            call = "let hbr = %s(%s); " % (b, ", ".join("hbx%d" % i for i in range(n)))
            body = (pfx + args) if placement != "after-arguments" else (args + pfx)
            return "{ %s%s(%s) ? 9 : 8 }" % (body, call, o[2])
        KINDS[name] = (f[2] if f else None, tmpl, lambda T: 9, [])
    else:
        _nm, stmts, chk, marks = o

        def tmpl(t, stmts=stmts, chk=chk, pfx=pfx):
            return "{ %s%s(%s) ? 9 : 8 }" % (pfx, "".join(st + "; " for st in stmts), chk)
        KINDS[name] = (None, tmpl, lambda T: 9, list(marks))
    return name


# ---- one probe per fault site ---------------------------------------------------------------------
# harness/c03/faultsites.py enumerates every place of the VM that raises an exception; the probes below are
# int-valued expressions over a trigger t that raise a stated exception iff t == 0 (value 9 otherwise).  Which
# site a probe reaches is MEASURED by the check (opcode at which the traced run faults), not claimed here.
SITE_RECORDS = "enum ER { A { x : int; }, B }\n"
SITE_HELPERS = """func pner(t : int) -> ER { var a = {[ 2 ]} : ER; a[1] = ER::A(4); a[t == 0 ? 0 : 1] }
func g2() -> [_,_] : int { [ [ 1, 2, 3 ], [ 4, 5, 6 ] ] : int }
func dimof(z[D] : int) -> int { D * 0 + 9 }
func prng(t : int) -> [..] : range { var a = {[ 2 ]} : [..] : range; a[1] = [ 0 .. 5 ]; a[t == 0 ? 0 : 1] }
func pslc(t : int) -> [..] : int { var a = {[ 2 ]} : [..] : int; a[1] = garr()[0 .. 2]; a[t == 0 ? 0 : 1] }
func stdiv() -> int { 1 / zero() } catch (division_by_zero) { 0 }
func stoob() -> int { garr()[3 + zero()] } catch (index_out_of_bounds) { 0 }
func stnil() -> int { prec(zero()).x } catch (nil_pointer) { 0 }
func stsize() -> int { first(mk(zero()) + gy2()) } catch (wrong_array_size) { 0 }
func stffi() -> int { pffi(zero()) } catch (ffi_fail) { 0 }
func stdom() -> int { sqrt(zero() - 1.0) > 0.0 ? 1 : 0 } catch (invalid_domain) { 0 }
"""
STALE = {"division_by_zero": "stdiv()", "index_out_of_bounds": "stoob()", "nil_pointer": "stnil()",
         "wrong_array_size": "stsize()", "ffi_fail": "stffi()", "invalid_domain": "stdom()"}
NUMT = [("int", "7", "%s"), ("long", "7L", "((%s) + 0L)"), ("float", "7.0", "((%s) + 0.0)"), ("double", "7.0d", "((%s) + 0.0d)")]


def _site_probes():
    P = []

    def add(name, exc, tmpl):
        P.append((name.replace(":", "/"), exc, tmpl))
    for ty, lit, conv in NUMT:
        add("div:" + ty, "division_by_zero", lambda t, lit=lit, conv=conv: "{ let spx = %s / %s; 9 }" % (lit, conv % t))
        if ty in ("int", "long"):
            add("mod:" + ty, "division_by_zero", lambda t, lit=lit, conv=conv: "{ let spx = %s %% %s; 9 }" % (lit, conv % t))
        nilarr = "{ var spa = {[ 2 ]} : [_] : %s; spa[1] = [ %s, %s ] : %s; " % (ty, lit, lit, ty)
        sel = "spa[(%s) == 0 ? 0 : 1]"
        nilok = ty in ("int", "float")      # an array of long / double arrays does not typecheck on the pinned tree
        if nilok:
          add("neg-nil-array:" + ty, "nil_pointer", lambda t, a=nilarr, sel=sel: a + "let spz = -(%s); 9 }" % (sel % t))
        for opn, op in (("add", "+"), ("sub", "-")):
            if nilok:
                add("%s-nil-array-left:%s" % (opn, ty), "nil_pointer",
                    lambda t, a=nilarr, sel=sel, op=op: a + "let spz = %s %s spa[1]; 9 }" % (sel % t, op))
                add("%s-nil-array-right:%s" % (opn, ty), "nil_pointer",
                    lambda t, a=nilarr, sel=sel, op=op: a + "let spz = spa[1] %s %s; 9 }" % (op, sel % t))
            add("%s-arrays-of-different-size:%s" % (opn, ty), "wrong_array_size",
                lambda t, ty=ty, op=op: "{ let spx = {[ (%s) == 0 ? 3 : 2 ]} : %s; let spy = {[ 2 ]} : %s; let spz = spx %s spy; 9 }" % (t, ty, ty, op))
            add("%s-matrices-of-different-shape:%s" % (opn, ty), "wrong_array_size",
                lambda t, ty=ty, op=op: "{ let spx = {[ 2, (%s) == 0 ? 3 : 2 ]} : %s; let spy = {[ 2, 2 ]} : %s; let spz = spx %s spy; 9 }" % (t, ty, ty, op))
        nilmat = "{ var spa = {[ 2 ]} : [_,_] : %s; spa[1] = [ [ %s, %s ], [ %s, %s ] ] : %s; " % (ty, lit, lit, lit, lit, ty)
        if nilok:
            add("scalar-times-nil-array:" + ty, "nil_pointer", lambda t, a=nilarr, sel=sel, lit=lit: a + "let spz = %s * %s; 9 }" % (lit, sel % t))
            add("matrix-product-nil-left:" + ty, "nil_pointer", lambda t, a=nilmat, sel=sel: a + "let spz = %s * spa[1]; 9 }" % (sel % t))
            add("matrix-product-nil-right:" + ty, "nil_pointer", lambda t, a=nilmat, sel=sel: a + "let spz = spa[1] * %s; 9 }" % (sel % t))
        add("matrix-product-not-conformable:" + ty, "wrong_array_size",
            lambda t, ty=ty: "{ let spx = {[ 2, (%s) == 0 ? 3 : 2 ]} : %s; let spy = {[ 2, 2 ]} : %s; let spz = spx * spy; 9 }" % (t, ty, ty))
        add("array-extent-zero:" + ty, "index_out_of_bounds", lambda t, ty=ty: "{ let spx = {[ (%s) == 0 ? 0 : 2 ]} : %s; 9 }" % (t, ty))
        add("array-extent-negative-2nd:" + ty, "index_out_of_bounds", lambda t, ty=ty: "{ let spx = {[ 2, (%s) == 0 ? 0 - 3 : 2 ]} : %s; 9 }" % (t, ty))
        add("array-extent-product-too-large:" + ty, "wrong_array_size",
            lambda t, ty=ty: "{ let spx = {[ (%s) == 0 ? 65536 : 1, (%s) == 0 ? 65536 : 1 ]} : %s; 9 }" % (t, t, ty))
    for nm, ty in (("char", "char"), ("string", "string"), ("array", "[_] : int"), ("record", "R"), ("function", "(int) -> int")):
        add("array-extent-zero:" + nm, "index_out_of_bounds", lambda t, ty=ty: "{ let spx = {[ (%s) == 0 ? 0 : 2 ]} : %s; 9 }" % (t, ty))
        add("array-extent-product-too-large:" + nm, "wrong_array_size",
            lambda t, ty=ty: "{ let spx = {[ (%s) == 0 ? 65536 : 1, (%s) == 0 ? 65536 : 1 ]} : %s; 9 }" % (t, t, ty))
    for ty, lit in (("int", "7"), ("long", "7L"), ("float", "7.5"), ("double", "7.5d"), ("char", "'c'")):
        add("concat-%s-nil-string" % ty, "nil_pointer", lambda t, lit=lit: "{ let sps = %s + pstr(%s); 9 }" % (lit, t))
        add("concat-nil-string-%s" % ty, "nil_pointer", lambda t, lit=lit: "{ let sps = pstr(%s) + %s; 9 }" % (t, lit))
    add("concat-nil-string-string", "nil_pointer", lambda t: '{ let sps = pstr(%s) + "x"; 9 }' % t)
    add("concat-string-nil-string", "nil_pointer", lambda t: '{ let sps = "x" + pstr(%s); 9 }' % t)
    add("eq-nil-string", "nil_pointer", lambda t: '(pstr(%s) == "hello" ? 9 : 9)' % t)
    add("neq-nil-string", "nil_pointer", lambda t: '("hello" != pstr(%s) ? 9 : 9)' % t)
    add("match-nil-enum-record", "nil_pointer", lambda t: "(match pner(%s) { ER::A(x) -> x + 5; ER::B -> 9; })" % t)
    add("iflet-nil-enum-record", "nil_pointer", lambda t: "(if let (ER::A(x) = pner(%s)) { x + 5 } else { 9 })" % t)
    add("assign-nil-string", "nil_pointer", lambda t: '{ var sps = "a"; sps = pstr(%s); 9 }' % t)
    add("assign-nil-array", "nil_pointer", lambda t: "{ var spb = [ 1 ] : int; spb = parr(%s); 9 }" % t)
    add("assign-nil-function", "nil_pointer", lambda t: "{ var spf = inc1; spf = pfun(%s); 9 }" % t)
    add("slice-of-nil-array", "nil_pointer", lambda t: "{ let sps = parr(%s)[0 .. 1]; 9 }" % t)
    add("range-of-nil-range", "nil_pointer", lambda t: "{ let sps = prng(%s)[1 .. 2]; 9 }" % t)
    add("range-of-range-upper-out-of-bounds", "index_out_of_bounds", lambda t: "{ let spr = [ 0 .. 5 ]; let spq = spr[1 .. ((%s) == 0 ? 9 : 3)]; 9 }" % t)
    add("range-of-range-lower-out-of-bounds", "index_out_of_bounds", lambda t: "{ let spr = [ 0 .. 5 ]; let spq = spr[((%s) == 0 ? 8 : 1) .. 3]; 9 }" % t)
    add("range-of-range-2nd-dimension", "index_out_of_bounds", lambda t: "{ let spr = [ 0 .. 5, 0 .. 5 ]; let spq = spr[1 .. 2, 1 .. ((%s) == 0 ? 9 : 3)]; 9 }" % t)
    add("slice-of-slice-upper-out-of-bounds", "index_out_of_bounds", lambda t: "{ let sps = garr()[0 .. 2]; let spq = sps[1 .. ((%s) == 0 ? 7 : 2)]; 9 }" % t)
    add("slice-of-slice-lower-out-of-bounds", "index_out_of_bounds", lambda t: "{ let sps = garr()[0 .. 2]; let spq = sps[((%s) == 0 ? 5 : 1) .. 2]; 9 }" % t)
    add("slice-of-slice-2nd-dimension", "index_out_of_bounds", lambda t: "{ let sps = g2()[0 .. 1, 0 .. 2]; let spq = sps[0 .. 1, 1 .. ((%s) == 0 ? 7 : 2)]; 9 }" % t)
    add("slice-of-nil-slice", "nil_pointer", lambda t: "{ let spq = pslc(%s)[0 .. 1]; 9 }" % t)
    add("slice-of-nil-string", "nil_pointer", lambda t: "{ let sps = pstr(%s)[0 .. 1]; 9 }" % t)
    add("extent-of-nil-array-parameter", "nil_pointer", lambda t: "dimof(parr(%s))" % t)
    add("slice-of-string-out-of-bounds", "index_out_of_bounds", lambda t: "{ let sps = gstr()[1 .. ((%s) == 0 ? 9 : 2)]; 9 }" % t)
    add("array-index-negative", "index_out_of_bounds", lambda t: "garr()[(%s) - 1 < 0 ? (%s) - 1 : 0] - 1" % (t, t))
    add("array-index-too-large", "index_out_of_bounds", lambda t: "(garr()[(%s) == 0 ? 3 : 0] - 1)" % t)
    add("matrix-index-1st-dimension", "index_out_of_bounds", lambda t: "(g2()[(%s) == 0 ? 2 : 0, 0] + 8)" % t)
    add("matrix-index-2nd-dimension", "index_out_of_bounds", lambda t: "(g2()[0, (%s) == 0 ? 3 : 0] + 8)" % t)
    add("matrix-index-negative-2nd-dimension", "index_out_of_bounds", lambda t: "(g2()[0, (%s) == 0 ? 0 - 1 : 0] + 8)" % t)
    add("index-of-nil-array", "nil_pointer", lambda t: "(parr(%s)[0] + 4)" % t)
    add("range-index-negative", "index_out_of_bounds", lambda t: "{ let spr = [ 2 .. 5 ]; let spi = spr[(%s) == 0 ? 0 - 1 : 0]; 9 }" % t)
    add("range-index-too-large", "index_out_of_bounds", lambda t: "{ let spr = [ 2 .. 5 ]; let spi = spr[(%s) == 0 ? 9 : 0]; 9 }" % t)
    add("index-of-nil-range", "nil_pointer", lambda t: "{ let spi = prng(%s)[0]; 9 }" % t)
    add("slice-index-negative", "index_out_of_bounds", lambda t: "{ let sps = garr()[0 .. 2]; let spi = sps[(%s) == 0 ? 0 - 1 : 0]; 9 }" % t)
    add("slice-index-too-large", "index_out_of_bounds", lambda t: "{ let sps = garr()[0 .. 1]; let spi = sps[(%s) == 0 ? 2 : 0]; 9 }" % t)
    add("slice-index-2nd-dimension", "index_out_of_bounds", lambda t: "{ let sps = g2()[0 .. 1, 0 .. 1]; let spi = sps[0, (%s) == 0 ? 2 : 0]; 9 }" % t)
    add("index-of-nil-slice", "nil_pointer", lambda t: "{ let spi = pslc(%s)[0]; 9 }" % t)
    add("slice-of-nil-array-index", "nil_pointer", lambda t: "{ let sps = parr(%s)[0 .. 1]; let spi = sps[0]; 9 }" % t)
    add("string-index-too-large", "index_out_of_bounds", lambda t: "(ord(gstr()[(%s) == 0 ? 3 : 0]) - 88)" % t)
    add("string-index-negative", "index_out_of_bounds", lambda t: "(ord(gstr()[(%s) == 0 ? 0 - 1 : 0]) - 88)" % t)
    add("index-of-nil-string", "nil_pointer", lambda t: "(ord(pstr(%s)[0]) - 95)" % t)
    add("field-of-nil-record", "nil_pointer", lambda t: "(prec(%s).x * 0 + 9)" % t)
    add("call-of-nil-function", "nil_pointer", lambda t: "(pfun(%s)(4) + 4)" % t)
    add("forin-nil-array", "nil_pointer", lambda t: "{ var spc = 9; for (e in parr(%s)) { spc = 9 }; spc }" % t)
    add("listcomp-nil-array", "nil_pointer", lambda t: "{ let spl = [ e | e in parr(%s) ] : int; 9 }" % t)
    add("prints-nil-string", "nil_pointer", lambda t: '{ let sps = prints((%s) == 0 ? pstr(0) : ""); 9 }' % t)
    add("length-of-nil-string", "nil_pointer", lambda t: "(length(pstr(%s)) + 4)" % t)
    add("ffi-library-missing", "ffi_fail", lambda t: "(pffi(%s) + 3)" % t)
    add("ffi-library-missing-no-arguments", "ffi_fail", lambda t: "(pffi0(%s) + 3)" % t)
    for b, (fs, os_) in HB_MATH.items():
        for cname, args, exc in fs:
            add("builtin-%s-%s" % (b, cname), exc,
                lambda t, b=b, args=args, os_=os_: "{ %slet hbr = %s(%s); 9 }" % (
                    "".join("let hbx%d = sel(%s, %s, %s); " % (i, t, a, os_[0][1][i]) for i, a in enumerate(args)),
                    b, ", ".join("hbx%d" % i for i in range(len(args)))))
    return P


SITE_PROBES = _site_probes()


def site_kind(name):
    k = "site:" + name
    if k not in KINDS:
        nm, exc, tmpl = [p for p in SITE_PROBES if p[0] == name][0]
        KINDS[k] = (exc, tmpl, lambda T: 9)
    return k


# ---- FFI calls with a record argument whose string / nested-record fields may be nil ------------
# shape: string over S (string field), R (nested record P2 {x; y}), I (int field)
FFILIB = "@C03FFILIB@"          # replaced by the path of the library built at check time

def _shapes():
    import itertools
    out = ["SR", "RS", "SS", "RR", "SI", "IS", "RI", "IR"]
    for t in itertools.product("SRI", repeat=3):
        w = "".join(t)
        if "S" in w and "R" in w:
            out.append(w)
    out += ["SRSR", "RSRS", "SSRR", "RRSS", "SRRI", "ISRS"]
    return out

FFI_SHAPES = _shapes()


def ffi_decls():
    """Never declarations shared by every FFI-record program"""
    recs = ["record P2 { x : int; y : int; }"]
    exts = []
    for sh in FFI_SHAPES:
        flds = " ".join("f%d : %s;" % (i, {"S": "string", "R": "P2", "I": "int"}[c]) for i, c in enumerate(sh))
        recs.append("record T_%s { %s }" % (sh, flds))
        exts.append('extern "%s" func c_%s(t : T_%s) -> int' % (FFILIB, sh, sh))
    funcs = ["func nilp() -> P2 { nil }",
             "func prp(t : int) -> P2 { if (t == 0) { nilp() } else { P2(3, 4) } }"]
    # records first, then externs, then functions (the order the grammar wants)
    return ("\n".join(recs) + "\n", "\n".join(exts) + "\n", "\n".join(funcs) + "\n")


def ffi_lib_source():
    """C source of the callee library: every callee has a side effect (prints its marker) and returns a
    value computed from all the fields it received"""
    t = ["#include <stdio.h>", "#include <string.h>", "typedef struct { int x; int y; } P2;"]
    for n, sh in enumerate(FFI_SHAPES):
        flds = " ".join("%s f%d;" % ({"S": "const char *", "R": "P2", "I": "int"}[c], i) for i, c in enumerate(sh))
        terms = []
        for i, c in enumerate(sh):
            terms.append({"S": "(t.f%d ? (int)strlen(t.f%d) : -1000)" % (i, i), "R": "t.f%d.x + t.f%d.y" % (i, i), "I": "t.f%d" % i}[c])
        t.append("typedef struct { %s } T_%s;" % (flds, sh))
        t.append('int c_%s(T_%s t) { printf("%%d\\n", %d); fflush(stdout); return %s; }' % (sh, sh, 7000 + n, " + ".join(terms)))
    return "\n".join(t) + "\n"


class NevExc(Exception):
    def __init__(self, kind):
        self.kind = kind


# ------------------------------------------------------------------ AST

class N:
    def __init__(s, n): s.n = n
    def src(s): return str(s.n) if s.n >= 0 else "(0 - %d)" % (-s.n)

class V:
    def __init__(s, x): s.x = x
    def src(s): return s.x

class Bin:
    def __init__(s, op, a, b): s.op, s.a, s.b = op, a, b
    def src(s): return "(%s %s %s)" % (s.a.src(), s.op, s.b.src())

class Cond:            # (a == b ? x : y)
    def __init__(s, a, b, x, y): s.a, s.b, s.x, s.y = a, b, x, y
    def src(s): return "(%s == %s ? %s : %s)" % (s.a.src(), s.b.src(), s.x.src(), s.y.src())

class Pm:
    def __init__(s, e): s.e = e
    def src(s): return "pm(%s)" % s.e.src()

class Id3:
    def __init__(s, a, b, c): s.args = [a, b, c]
    def src(s): return "id3(%s)" % ", ".join(a.src() for a in s.args)

class Flt:
    def __init__(s, kind, t): s.kind, s.t = kind, t
    def src(s): return KINDS[s.kind][1](s.t.src())

class Zero:             # zero(): 0, but not a constant the compiler can fold
    def src(s): return "zero()"

class FfiRec:           # c_<shape>(T_<shape>(...)) with the fields listed in `nils` nil
    def __init__(s, shape, nils): s.shape, s.nils = shape, set(nils)
    def src(s):
        a = []
        for i, c in enumerate(s.shape):
            t = 0 if i in s.nils else 1
            a.append({"S": "pstr(%d)" % t, "R": "prp(%d)" % t, "I": "(zero() + 2)"}[c])
        return "c_%s(T_%s(%s))" % (s.shape, s.shape, ", ".join(a))

class Call:
    def __init__(s, f, args): s.f, s.args = f, args
    def src(s): return "%s(%s)" % (s.f, ", ".join(a.src() for a in s.args))

class Var:              # `let x = e`, or `var x = e` when x is assigned to later (mut)
    def __init__(s, x, e, mut=False): s.x, s.e, s.mut = x, e, mut
    def src(s): return "%s %s = %s" % ("var" if s.mut else "let", s.x, s.e.src())

class Asg:
    def __init__(s, x, e): s.x, s.e = x, e
    def src(s): return "%s = %s" % (s.x, s.e.src())

class Ex:
    def __init__(s, e): s.e = e
    def src(s): return s.e.src()

class Raw:              # a statement of float arithmetic: no int value, no fault (history only)
    def __init__(s, text): s.text = text
    def src(s): return s.text

class While:           # var-controlled loop: while (i < n) { body; i = i + 1 }
    def __init__(s, i, n, body): s.i, s.n, s.body = i, n, body
    def src(s):
        return "while (%s < %d) { %s; %s = %s + 1 }" % (s.i, s.n, "; ".join(b.src() for b in s.body), s.i, s.i)

class Func:
    def __init__(s, name, params, body, clauses=(), catch_all=None, nested=(), lam=False):
        s.name, s.params, s.body = name, list(params), list(body)
        s.clauses, s.catch_all, s.nested, s.lam = list(clauses), catch_all, list(nested), lam

    def src(s, ind=""):
        ps = ", ".join(("var " if v else "") + "%s : int" % p for p, v in s.params)
        items = []
        for nf in s.nested:
            items.append(nf.src(ind + "    "))
        for st in s.body:
            items.append(ind + "    " + st.src())
        body = ";\n".join(items)
        if s.lam:
            head = "%svar %s = let func (%s) -> int\n%s{\n%s\n%s}" % (ind, s.name, ps, ind, body, ind)
        else:
            head = "%sfunc %s(%s) -> int\n%s{\n%s\n%s}" % (ind, s.name, ps, ind, body, ind)
        for name, stmts in s.clauses:
            head += "\n%scatch (%s)\n%s{\n%s\n%s}" % (ind, name, ind, ";\n".join(ind + "    " + st.src() for st in stmts), ind)
        if s.catch_all is not None:
            head += "\n%scatch\n%s{\n%s\n%s}" % (ind, ind, ";\n".join(ind + "    " + st.src() for st in s.catch_all), ind)
        return head


class Program:
    def __init__(s, funcs, coords, tops=(), decls=""):
        s.funcs, s.coords = funcs, coords      # funcs: top-level, main last
        s.tops = list(tops)                    # module-level `let name = expr`, evaluated in order before main
        s.decls = decls

    def src(s):
        hl = HELPERS.split("\n")
        nrec = len([l for l in hl if l.startswith("record")])
        next_ = len([l for l in hl if l.startswith("extern")])
        drec, dext, dfun = s.decls if s.decls else ("", "", "")
        t = ("\n".join(hl[:nrec]) + "\n" + drec + "\n".join(hl[nrec:nrec + next_]) + "\n" + dext
             + "\n".join(hl[nrec + next_:]) + dfun + "\n" + "\n\n".join(f.src() for f in s.funcs[:-1]))
        if s.tops:
            t += "\n;\n" + "\n".join("let %s = %s;" % (n, e.src()) for n, e in s.tops)
        return t + "\n\n" + s.funcs[-1].src() + "\n"


# ------------------------------------------------------------------ the oracle

class Interp:
    def __init__(s, prog):
        s.prog = prog
        s.top = {f.name: f for f in prog.funcs}
        s.out = []
        s.faults = 0
        s.steps = 0

    def run(s):
        """-> ('result', v) | ('unhandled', exception name); s.out = markers printed"""
        try:
            # module-level initialisers run first, in order; no function is active: nothing can catch
            for _n, e in s.prog.tops:
                s.ev(e, {})
            return ("result", s.call(s.top["main"], {}, []))
        except NevExc as ex:
            return ("unhandled", ex.kind)

    def call(s, fn, defenv, argvals):
        penv = dict(defenv)
        for (p, _v), a in zip(fn.params, argvals):
            penv[p] = [a]
        try:
            return s.block(fn.body, dict(penv), fn.nested)
        except NevExc as ex:
            kind = ex.kind
        # clause search: first matching clause, later clauses only for what a clause raises
        for name, stmts in fn.clauses:
            if name == kind:
                try:
                    return s.block(stmts, dict(penv), ())
                except NevExc as ex2:
                    kind = ex2.kind
        if fn.catch_all is not None:
            return s.block(fn.catch_all, dict(penv), ())
        raise NevExc(kind)

    def block(s, stmts, env, nested):
        for nf in nested:
            env[nf.name] = ("clos", nf, env)
        last = 0
        for st in stmts:
            if isinstance(st, Var):
                env[st.x] = [s.ev(st.e, env)]
                last = env[st.x][0]
            elif isinstance(st, Asg):
                v = s.ev(st.e, env)
                env[st.x][0] = v
                last = v
            elif isinstance(st, Ex):
                last = s.ev(st.e, env)
            elif isinstance(st, Raw):
                pass
            elif isinstance(st, While):
                while env[st.i][0] < st.n:
                    s.block(st.body, env, ())
                    env[st.i][0] += 1
                last = 0
        return last

    def ev(s, e, env):
        s.steps += 1
        if isinstance(e, N):
            return e.n
        if isinstance(e, V):
            return env[e.x][0]
        if isinstance(e, Bin):
            a = s.ev(e.a, env)
            b = s.ev(e.b, env)
            return a + b if e.op == "+" else (a - b if e.op == "-" else a * b)
        if isinstance(e, Cond):
            a = s.ev(e.a, env)
            b = s.ev(e.b, env)
            return s.ev(e.x, env) if a == b else s.ev(e.y, env)
        if isinstance(e, Pm):
            v = s.ev(e.e, env)
            s.out.append(v)
            return v
        if isinstance(e, Id3):
            vs = [None, None, None]
            for i in (2, 1, 0):                    # arguments right to left
                vs[i] = s.ev(e.args[i], env)
            return vs[0] + vs[1] + vs[2]
        if isinstance(e, Zero):
            return 0
        if isinstance(e, FfiRec):
            if e.nils:                              # a nil string / nil nested record cannot be marshalled:
                s.faults += 1                       # ffi_fail BEFORE the C function is entered
                raise NevExc("ffi_fail")
            s.out.append(7000 + FFI_SHAPES.index(e.shape))
            return sum({"S": 5, "R": 7, "I": 2}[c] for c in e.shape)
        if isinstance(e, Flt):
            t = s.ev(e.t, env)
            kd = KINDS[e.kind]
            if t == 0 and kd[0] is not None:        # kd[0] None: an operation that never fails
                s.faults += 1
                raise NevExc(kd[0])
            if len(kd) > 3:
                s.out.extend(kd[3])                 # what the operation itself prints
            return kd[2](t)
        if isinstance(e, Call):
            vs = [None] * len(e.args)
            for i in reversed(range(len(e.args))):
                vs[i] = s.ev(e.args[i], env)
            if e.f in env:
                _, fn, defenv = env[e.f]
                return s.call(fn, defenv, vs)
            return s.call(s.top[e.f], {}, vs)
        raise TypeError(e)


# ------------------------------------------------------------------ templates

class Gen:
    def __init__(s, rng, pool=None):
        s.rng = rng
        s.m = 0
        s.pool = pool or EXC_NAMES       # names used for the clauses that must not match

    def marker(s):
        s.m += 1
        return 1000 + s.m

    def wrap(s, e, d, k):
        """e as the k-th argument of a call nested d deep: d frames are under construction when e
        is evaluated; arguments right of it print their markers first, those left of it must not"""
        for _ in range(d):
            args = [Pm(N(s.marker())), Pm(N(s.marker())), Pm(N(s.marker()))]
            args[k] = e
            e = Id3(*args)
        return e

    def clause_body(s, cid, extra=None):
        st = [Var("w", Bin("+", Bin("*", V("p"), N(100)), V("q"))), Ex(Pm(N(9000 + cid)))]
        if extra is not None:
            st.append(Var("w2", extra))
            st.append(Ex(Bin("+", Bin("+", V("w"), V("w2")), N(cid * 10000))))
        else:
            st.append(Ex(Bin("+", V("w"), N(cid * 10000))))
        return st

    def others(s, exc, n):
        pool = [x for x in s.pool if x != exc]
        s.rng.shuffle(pool)
        return pool[:n]

    def clauses_for(s, exc, order, cid0, extra=None):
        """-> (clauses, catch_all) of the function that is to take `exc`"""
        o = s.others(exc, 2)
        mk = lambda nm, i: (nm, s.clause_body(cid0 + i, extra if nm == exc else None))
        if order == "first":
            return [mk(exc, 0), mk(o[0], 1), mk(o[1], 2)], None
        if order == "last":
            return [mk(o[0], 1), mk(o[1], 2), mk(exc, 0)], None
        if order == "only":
            return [mk(exc, 0)], None
        if order == "all":
            return [mk(o[0], 1)], s.clause_body(cid0 + 3, extra)
        if order == "dup":          # two clauses for the same exception: the first one runs
            return [mk(o[0], 1), mk(exc, 0), mk(exc, 2)], None
        raise ValueError(order)

    def level(s, name, nxt, d, k, dp, loc, clauses, catch_all):
        """a function of the call chain: mutates its parameter, calls the next level as the k-th
        argument of a call nested d deep, uses the result"""
        body = [Var("loc", N(loc)),
                Asg("p", Bin("+", V("p"), N(dp))),
                Ex(Pm(N(s.marker()))),
                Var("r", s.wrap(Call(nxt, [Bin("+", V("p"), N(1)), Bin("+", V("q"), N(0))]), d, k)),
                Ex(Pm(N(s.marker()))),
                Ex(Bin("+", Bin("+", V("r"), V("loc")), V("p")))]
        return Func(name, [("p", True), ("q", False)], body, clauses, catch_all)

    def chain(s, kind, k, d, j, order, trig=0, hf=None, dmid=None, fexpr=None, exc=None, toplevel=False, decls=""):
        """main -> fa -> fb -> fc; fc faults (kind) as the k-th argument of a call nested d deep;
        the function j levels above fc (0 = fc itself ... 3 = main) has the clause; order says
        where in its clause list; 'absent' = nobody has one.
        hf = (kind2, where): the matching clause itself faults with kind2; where in
        {'later': a later clause of the same function takes it, 'caller': the caller's, 'none'}"""
        rng = s.rng
        exc = exc or KINDS[kind][0]
        names = ["fc", "fb", "fa", "main"]
        extra = None
        exc2 = None
        if hf:
            exc2 = KINDS[hf[0]][0]
            extra = s.wrap(Flt(hf[0], Bin("-", V("q"), V("q"))), rng.randint(0, 2), rng.randint(0, 2))
        cl = {}
        for lvl in range(4):
            if order != "absent" and lvl == j:
                c, a = s.clauses_for(exc, order, 10 * (lvl + 1), extra)
                if hf and hf[1] == "later" and a is None:
                    c = c + [(exc2, s.clause_body(10 * (lvl + 1) + 7))]
                cl[lvl] = (c, a)
            elif hf and hf[1] == "caller" and lvl == j + 1:
                cl[lvl] = ([(exc2, s.clause_body(10 * (lvl + 1) + 8))], None)
            else:
                avoid = [exc] + ([exc2] if exc2 else [])
                pool = [x for x in s.pool if x not in avoid]
                rng.shuffle(pool)
                cl[lvl] = ([(nm, s.clause_body(10 * (lvl + 1) + 4 + i)) for i, nm in enumerate(pool[:rng.randint(0, 2)])], None)
        dm = dmid if dmid is not None else rng.randint(0, 2)
        # fc: the faulting function
        fc_body = [Var("loc", N(rng.randint(1, 9))),
                   Asg("p", Bin("+", V("p"), N(rng.randint(1, 5)))),
                   Ex(Pm(N(s.marker()))),
                   Var("r", s.wrap(fexpr if fexpr is not None else Flt(kind, V("q")), d, k)),
                   Ex(Pm(N(s.marker()))),
                   Ex(Bin("+", Bin("+", V("r"), V("loc")), V("p")))]
        fc = Func("fc", [("p", True), ("q", False)], fc_body, *cl[0])
        fb = s.level("fb", "fc", dm, rng.randint(0, 2), rng.randint(1, 5), rng.randint(1, 9), *cl[1])
        fa = s.level("fa", "fb", rng.randint(0, 2) if dmid is None else dmid, rng.randint(0, 2), rng.randint(1, 5), rng.randint(1, 9), *cl[2])
        main_body = [Var("p", N(rng.randint(1, 9))), Var("q", N(trig)),
                     Ex(Pm(N(s.marker()))),
                     Var("r", s.wrap(Call("fa", [Bin("+", V("p"), N(2)), Bin("+", V("q"), N(0))]), rng.randint(0, 1), rng.randint(0, 2))),
                     Ex(Pm(N(s.marker()))),
                     Ex(Bin("+", V("r"), V("p")))]
        # main's clauses may only use its own locals-free expressions: it has no parameters
        mcl = [(nm, [Ex(Pm(N(9900 + i))), Ex(N(40000 + i))]) for i, (nm, _b) in enumerate(cl[3][0])]
        mall = [Ex(Pm(N(9909))), Ex(N(40009))] if cl[3][1] is not None else None
        main = Func("main", [], main_body, mcl, mall)
        coords = "%s:k%dd%dj%d:%s" % (kind, k, d, j, order) + (":hf-%s-%s" % hf if hf else "") + (":t%d" % trig if trig else "")
        if toplevel:
            # the chain is entered from a module-level initialiser instead of from main
            targ = Zero() if trig == 0 else Bin("+", Zero(), N(trig))
            tops = [("g1", Pm(N(s.marker()))),
                    ("g2", s.wrap(Call("fa", [Bin("+", Zero(), N(rng.randint(1, 9))), targ]), rng.randint(0, 2), rng.randint(0, 2))),
                    ("g3", Pm(N(s.marker())))]
            main = Func("main", [], [Ex(Pm(N(s.marker()))), Ex(N(rng.randint(1, 99)))])
            return Program([fc, fb, fa, main], "toplevel-via:" + coords, tops=tops, decls=decls)
        return Program([fc, fb, fa, main], coords, decls=decls)

    def toplevel_direct(s, kind, k, d, trig=0):
        """the fault is raised by a module-level initialiser itself (k-th argument of a call nested d deep)"""
        rng = s.rng
        targ = Zero() if trig == 0 else Bin("+", Zero(), N(trig))
        tops = [("g1", Pm(N(s.marker()))),
                ("g2", s.wrap(Flt(kind, targ), d, k)),
                ("g3", Pm(N(s.marker())))]
        main = Func("main", [], [Ex(Pm(N(s.marker()))), Ex(N(rng.randint(1, 99)))])
        idf = Func("idf", [("a", False)], [Ex(Bin("+", V("a"), N(1)))])
        return Program([idf, main], "toplevel-direct:%s:k%dd%d" % (kind, k, d) + (":t%d" % trig if trig else ""), tops=tops)

    def loop(s, kind, k, d, at, n, own):
        """fault at iteration `at` of a loop of n iterations inside fc (k-th argument, d deep); fc
        has the clause (own) or its caller"""
        rng = s.rng
        exc = KINDS[kind][0]
        body = [Var("loc", N(rng.randint(1, 9))), Var("i", N(0), True), Var("acc", N(0), True),
                While("i", n, [Asg("p", Bin("+", V("p"), N(1))),
                               Asg("acc", Bin("+", V("acc"), s.wrap(Flt(kind, Cond(V("i"), N(at), N(0), Bin("+", V("q"), N(1)))), d, k))),
                               Ex(Pm(V("acc")))]),
                Ex(Pm(N(s.marker()))),
                Ex(Bin("+", V("acc"), V("p")))]
        c, a = s.clauses_for(exc, rng.choice(["first", "last", "all"]), 10)
        fc = Func("fc", [("p", True), ("q", False)], body, *((c, a) if own else ([], None)))
        c2, a2 = s.clauses_for(exc, rng.choice(["first", "last"]), 20)
        fb = s.level("fb", "fc", rng.randint(0, 2), rng.randint(0, 2), 2, 3, *((c2, a2) if not own else ([], None)))
        main = Func("main", [], [Ex(Pm(N(s.marker()))),
                                 Var("r", Call("fb", [N(rng.randint(1, 9)), N(rng.randint(0, 2))])),
                                 Ex(Pm(V("r"))), Ex(Bin("+", V("r"), N(1)))])
        return Program([fc, fb, main], "loop:%s:k%dd%d:at%dof%d:%s" % (kind, k, d, at, n, "own" if own else "caller"))

    def closure(s, kind, k, d, where, lam):
        """the fault is raised inside a nested function / closure of fc that assigned to fc's
        parameter (captured cell) before; where: 'inner' (the nested function has the clause),
        'outer' (fc has it), 'none'"""
        rng = s.rng
        exc = KINDS[kind][0]
        ibody = [Asg("p", Bin("+", V("p"), N(10))), Ex(Pm(N(s.marker()))),
                 Var("v", s.wrap(Flt(kind, V("u")), d, k)), Ex(Pm(N(s.marker()))),
                 Ex(Bin("+", V("v"), V("u")))]
        icl = [(exc, [Ex(Pm(N(9700))), Ex(Bin("+", Bin("*", V("p"), N(100)), Bin("+", V("u"), N(70000))))])] \
            if (where == "inner" and not lam) else []
        inner = Func("inner", [("u", False)], ibody, icl, None, lam=lam)
        body = [Var("loc", N(rng.randint(1, 9))),
                Asg("p", Bin("+", V("p"), N(1))),
                Var("a1", Call("inner", [Bin("+", V("q"), N(2))])),
                Ex(Pm(V("a1"))),
                Var("a2", s.wrap(Call("inner", [Bin("+", V("q"), N(0))]), rng.randint(0, 2), rng.randint(0, 2))),
                Ex(Pm(V("a2"))),
                Ex(Bin("+", Bin("+", V("a1"), V("a2")), V("p")))]
        c, a = (s.clauses_for(exc, rng.choice(["first", "last", "all"]), 10) if where in ("outer",) or (where == "inner" and lam)
                else ([], None))
        fc = Func("fc", [("p", True), ("q", False)], body, c, a, nested=[inner])
        main = Func("main", [], [Ex(Pm(N(s.marker()))),
                                 Var("r", Call("fc", [N(rng.randint(1, 9)), N(0)])),
                                 Ex(Pm(V("r"))), Ex(Bin("+", V("r"), N(1)))])
        return Program([fc, main], "closure:%s:k%dd%d:%s:%s" % (kind, k, d, where, "lambda" if lam else "nested"))

    def recursion(s, kind, depth, catch_at):
        """fc recurses `depth` times, each activation with its own parameter values and a frame
        under construction; the innermost faults; activation number `catch_at` (counted from the
        outside, 0 = outermost) is the first one whose clause matches (the clause tests nothing:
        every activation has the same clause list, so the INNERMOST must take it: catch_at is
        only used for the key)"""
        rng = s.rng
        exc = KINDS[kind][0]
        body = [Var("loc", N(7)),
                Asg("p", Bin("+", V("p"), N(3))),
                Ex(Pm(V("q"))),
                Var("r", Cond(V("q"), N(0),
                              s.wrap(Flt(kind, V("q")), 1, rng.randint(0, 2)),
                              s.wrap(Call("fc", [Bin("+", V("p"), N(1)), Bin("-", V("q"), N(1))]), rng.randint(0, 2), rng.randint(0, 2)))),
                Ex(Pm(V("r"))),
                Ex(Bin("+", V("r"), V("loc")))]
        c, a = s.clauses_for(exc, rng.choice(["first", "last", "all"]), 10)
        fc = Func("fc", [("p", True), ("q", False)], body, c, a)
        main = Func("main", [], [Var("r", Call("fc", [N(rng.randint(1, 9)), N(depth)])), Ex(Pm(V("r"))), Ex(Bin("+", V("r"), N(1)))])
        return Program([fc, main], "recursion:%s:depth%d" % (kind, depth))


def family(seed, tier, ffilib=False):
    """-> list of Program; deterministic in (seed, tier)"""
    rng = random.Random((seed * 1000003) ^ 0xC03)
    g = Gen(rng)
    kinds = list(KINDS)
    progs = []
    # 1. every kind x k x d with the clause j levels up, all orders (systematic core, rotated)
    combos = [(k, d, j) for k in range(3) for d in range(4) for j in range(4)]
    orders = ["first", "last", "all", "only", "dup"]
    for ki, kind in enumerate(kinds):
        sel = combos if tier != "quick" else [c for i, c in enumerate(combos) if (i + ki) % 4 == 0]
        for i, (k, d, j) in enumerate(sel):
            if d == 0 and k != 0:
                continue
            progs.append(g.chain(kind, k, d, j, orders[(i + ki) % len(orders)]))
    # 2. nobody has a clause: unhandled, every kind, every depth
    for kind in kinds:
        for d in range(4):
            progs.append(g.chain(kind, rng.randint(0, 2) if d else 0, d, 0, "absent"))
    # 3. controls: the trigger is not zero, nothing faults
    for kind in kinds:
        progs.append(g.chain(kind, rng.randint(0, 2), rng.randint(1, 3), rng.randint(0, 3), "first", trig=rng.randint(1, 3)))
    # 4. clauses that fault themselves: with another exception, and with the SAME exception (which must
    #    not come back to the clause that raised it, nor to an earlier one)
    for kind in kinds:
        for where in ("later", "caller", "none"):
            k2 = rng.choice([x for x in kinds if KINDS[x][0] != KINDS[kind][0]])
            progs.append(g.chain(kind, rng.randint(0, 2), rng.randint(0, 3), rng.randint(0, 2), rng.choice(["first", "last", "only"]),
                                 hf=(k2, where)))
            k3 = rng.choice([x for x in kinds if KINDS[x][0] == KINDS[kind][0]])
            progs.append(g.chain(kind, rng.randint(0, 2), rng.randint(0, 3), rng.randint(0, 2), rng.choice(["first", "last", "only", "dup"]),
                                 hf=(k3, where)))
    # 5. loops, closures, recursion
    for kind in kinds:
        n = 4
        for at in ((0, 2, 3) if tier != "quick" else (rng.choice([0, 3]), 2)):
            progs.append(g.loop(kind, rng.randint(0, 2), rng.randint(0, 2), at, n, rng.random() < 0.5))
        for where in ("inner", "outer", "none"):
            progs.append(g.closure(kind, rng.randint(0, 2), rng.randint(0, 3), where, lam=False))
        progs.append(g.closure(kind, rng.randint(0, 2), rng.randint(0, 2), rng.choice(["outer", "inner"]), lam=True))
        progs.append(g.recursion(kind, rng.randint(2, 4), 0))
    # 7. faults in module-level initialisers: raised there directly, or rethrown into them out of the
    #    functions they call (with / without clauses on the way); a separate generator so that the
    #    programs above do not depend on this section
    rng2 = random.Random((seed * 7919) ^ 0x70B)
    g2 = Gen(rng2)
    for ki, kind in enumerate(kinds):
        for d in ((0, 1, 3) if tier == "quick" else (0, 1, 2, 3)):
            progs.append(g2.toplevel_direct(kind, rng2.randint(0, 2) if d else 0, d))
        progs.append(g2.toplevel_direct(kind, rng2.randint(0, 2), rng2.randint(1, 2), trig=rng2.randint(1, 3)))
        for order in (("absent", "first", "all") if tier == "quick" else ("absent", "first", "last", "all", "only")):
            d = rng2.randint(0, 3)
            progs.append(g2.chain(kind, rng2.randint(0, 2) if d else 0, d, rng2.randint(0, 2), order, toplevel=True))
        progs.append(g2.chain(kind, 0, 1, 0, "first", trig=rng2.randint(1, 3), toplevel=True))
    # 8. FFI calls with a record argument: a nil string / nil nested record in every position relative to
    #    the non-nil fields must end in ffi_fail before the callee is entered
    if ffilib:
        decls = ffi_decls()
        for si, sh in enumerate(FFI_SHAPES):
            if tier == "quick" and len(sh) == 3 and (si + seed) % 2:
                continue
            nullable = [i for i, c in enumerate(sh) if c in "SR"]
            variants = [()] + [(i,) for i in nullable]
            if len(nullable) > 1:
                variants.append(tuple(nullable))
                variants.append(tuple(nullable[1:]))
            for nils in variants:
                d = rng2.randint(0, 2)
                order = rng2.choice(["first", "last", "all", "only"]) if rng2.random() < 0.85 else "absent"
                p = g2.chain("ffirec", rng2.randint(0, 2) if d else 0, d, rng2.randint(0, 2), order, trig=1,
                             fexpr=FfiRec(sh, nils), exc="ffi_fail", decls=decls)
                p.coords = "ffirec:%s:nil%s:%s" % (sh, "".join(map(str, nils)) or "-", p.coords.split(":", 1)[1].replace(":t1", ""))
                progs.append(p)
    # 9. operation history x built-in: every prefix of float/double arithmetic x every argument class of every
    #    built-in, once with the failing and once with the non-failing arguments; where the prefix runs
    #    (before / after the arguments are computed, at the start of main, in the caller) and the delivery
    #    coordinates (clause j levels up, clause order incl. absent, depth, argument position) rotate
    rng3 = random.Random((seed * 104729) ^ 0xB17)
    g3 = Gen(rng3, pool=EXC_NAMES + ["overflow", "underflow"])
    hbdecls = ("", "", HB_HELPERS)
    pairs = hb_pairs()
    orders9 = ["first", "last", "only", "dup", "all", "absent"]
    n9 = 0

    def hist(p, prefix, placement, main_index=-1):
        raws = [Raw(st) for st in HB_PREFIX[prefix]]
        if placement == "start-of-main":
            p.funcs[main_index].body[0:0] = raws
        elif placement == "in-caller":
            p.funcs[1].body[3:3] = raws           # fb, right before it calls fc
        return p

    for pi, prefix in enumerate(HB_PREFIX):
        for bi, pair in enumerate(pairs):
            places = HB_PLACEMENTS if tier != "quick" else [HB_PLACEMENTS[(pi + bi + seed) % 4]]
            for placement in places:
                kind = hb_kind(pair, prefix, placement)
                exc = KINDS[kind][0]
                for trig in ([0] if exc else []) + [rng3.randint(1, 3)]:
                    d = rng3.randint(0, 3)
                    j = n9 % 4
                    order = orders9[(n9 // 4 + pi + bi) % 6]
                    n9 += 1
                    p = g3.chain(kind, rng3.randint(0, 2) if d else 0, d, j, order, trig=trig,
                                 exc=exc or rng3.choice(g3.pool), decls=hbdecls)
                    progs.append(hist(p, prefix, placement))
    # ... and inside loops (the history grows with every iteration), closures, recursion, module-level code
    for bi, pair in enumerate(pairs):
        if pair[1] is None:
            continue
        for shape in ("loop", "closure", "recursion", "toplevel"):
            prefix = rng3.choice(list(HB_PREFIX))
            kind = hb_kind(pair, prefix, rng3.choice(HB_PLACEMENTS[:2]))
            if shape == "loop":
                p = g3.loop(kind, rng3.randint(0, 2), rng3.randint(0, 2), rng3.choice([1, 2, 3]), 4, rng3.random() < 0.5)
            elif shape == "closure":
                p = g3.closure(kind, rng3.randint(0, 2), rng3.randint(0, 2), rng3.choice(["inner", "outer", "none"]), lam=rng3.random() < 0.3)
            elif shape == "recursion":
                p = g3.recursion(kind, rng3.randint(2, 3), 0)
            else:
                p = g3.toplevel_direct(kind, rng3.randint(0, 2), rng3.randint(0, 2))
            p.decls = hbdecls
            progs.append(p)
    # 10. one probe per fault site (harness/c03/faultsites.py): (a) a matching typed clause, placed after a clause
    #     for ANOTHER exception that was raised and handled earlier in the same run (a stale exception register
    #     must not select it), (b) only non-matching clauses (among them the stale one) and a catch-all,
    #     (c) nobody has a clause: the report must name the exception; (d) control: the trigger is not 0
    rng4 = random.Random((seed * 15485863) ^ 0x517E)
    g4 = Gen(rng4, pool=EXC_NAMES + ["overflow", "underflow"])
    sdecls = (SITE_RECORDS, "", SITE_HELPERS + HB_HELPERS)
    for pi, (pname, exc, _t) in enumerate(SITE_PROBES):
        kind = site_kind(pname)
        stales = [e for e in STALE if e != exc]
        for mode in ("stale-typed", "stale-catch-all", "unhandled", "control"):
            stale = stales[(pi + len(mode)) % len(stales)]
            d = rng4.randint(0, 2)
            k = rng4.randint(0, 2) if d else 0
            j = rng4.randint(0, 3)
            if mode == "stale-typed":
                p = g4.chain(kind, k, d, j, rng4.choice(["first", "last", "only"]), decls=sdecls)
                fn = p.funcs[j]
                body = [Ex(Pm(N(9800 + j))), Ex(N(50000 + j))] if fn.name == "main" else g4.clause_body(80 + j)
                fn.clauses = [c for c in fn.clauses if c[0] != stale]
                fn.clauses.insert(0, (stale, body))
            elif mode == "stale-catch-all":
                p = g4.chain(kind, k, d, j, "all", decls=sdecls)
                fn = p.funcs[j]
                body = [Ex(Pm(N(9800 + j))), Ex(N(50000 + j))] if fn.name == "main" else g4.clause_body(80 + j)
                fn.clauses = [(stale, body)] + [c for c in fn.clauses if c[0] not in (stale, exc)]
            elif mode == "unhandled":
                p = g4.chain(kind, k, d, 0, "absent", decls=sdecls)
                for fn in p.funcs:
                    fn.clauses = [c for c in fn.clauses if c[0] != stale]
            else:
                p = g4.chain(kind, k, d, j, "first", trig=rng4.randint(1, 3), decls=sdecls)
            if mode != "control":
                p.funcs[-1].body[0:0] = [Raw("let spst = %s" % STALE[stale])]
            p.coords = "site:%s:%s:after-%s:%s" % (pname, mode, stale if mode != "control" else "-", p.coords[len(kind) + 1:])
            progs.append(p)
    # 6. random rest
    extra = 60 if tier == "quick" else 2500
    for _ in range(extra):
        kind = rng.choice(kinds)
        d = rng.randint(0, 3)
        progs.append(g.chain(kind, rng.randint(0, 2) if d else 0, d, rng.randint(0, 3),
                             rng.choice(orders + ["absent"]), dmid=rng.choice([None, 0, 2])))
    # unique ids
    seen = {}
    for p in progs:
        n = seen.get(p.coords, 0)
        seen[p.coords] = n + 1
        p.pid = p.coords if n == 0 else "%s#%d" % (p.coords, n)
    return progs


def expected(prog):
    it = Interp(prog)
    kind, val = it.run()
    return {"kind": kind, "value": val, "out": it.out, "faults": it.faults}


if __name__ == "__main__":
    import sys
    ps = family(int(sys.argv[1]) if len(sys.argv) > 1 else 1, sys.argv[2] if len(sys.argv) > 2 else "quick")
    print(len(ps))
    p = ps[int(sys.argv[3])] if len(sys.argv) > 3 else ps[0]
    print(p.pid)
    print(p.src())
    print(expected(p))
