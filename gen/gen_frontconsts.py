#!/usr/bin/env python3
"""Regenerate coq/Gen/FrontConsts.v from /repo's CURRENT sources (DESIGN.md §4.1, C05).

What is read, and from where:
  back/utils.c     #define MAX_MSG_SIZE; inside print_msg(): the dimension of msg_buf, the size
                   argument of `snprintf(msg_buf, <E>, ...)`, an optional clamp of msg_len
                   (`if (msg_len >= E1) msg_len = E2;`) and the size argument of
                   `vsnprintf(msg_buf + msg_len, <E>, ...)` (an expression over msg_len)
  front/scanner.l  #define MAX_USE_DEPTH / MAX_FILE_NAME_LEN / MAX_NEVER_PATH_LEN, the dimension
                   of use_stack[], the depth guard of the <USE> rule (`if (use_stack_ptr OP E)`
                   in front of the moduletab lookup; absent guard -> `false`), and the shapes
                   of the push (`use_stack[use_stack_ptr++] = descr`) and of the <<EOF>> pop
                   (`if (--use_stack_ptr < 0)`).
The C expressions are translated by a tiny translator (integers, known names, + - * and
parentheses, one comparison).  Anything it cannot translate is reported in `problems` and
the old file is left in place: the check then reports the tie as broken.
"""
import os
import re
import sys

sys.path.insert(0, os.path.dirname(os.path.dirname(os.path.abspath(__file__))))
from lib import common


class Untranslatable(Exception):
    pass


TOK = re.compile(r"\s*(?:(\d+|0[xX][0-9a-fA-F]+)[uUlL]*|([A-Za-z_][A-Za-z0-9_]*)|(>=|<=|==|!=|[-+*()<>]))")


def tokenize(s):
    out, i = [], 0
    s = s.strip()
    while i < len(s):
        m = TOK.match(s, i)
        if not m:
            raise Untranslatable("cannot tokenize %r" % s[i:])
        if m.group(1):
            out.append(("int", int(m.group(1), 0)))
        elif m.group(2):
            out.append(("id", m.group(2)))
        else:
            out.append(("op", m.group(3)))
        i = m.end()
    return out


class ExprParser:
    """sum := prod (('+'|'-') prod)* ; prod := atom ('*' atom)* ; atom := int | id | '(' sum ')' | sizeof(id)"""

    def __init__(self, toks, names):
        self.t, self.i, self.names = toks, 0, names

    def peek(self):
        return self.t[self.i] if self.i < len(self.t) else (None, None)

    def eat(self):
        x = self.peek(); self.i += 1; return x

    def atom(self):
        k, v = self.eat()
        if k == "int":
            return str(v)
        if k == "id" and v == "sizeof":
            if self.eat() != ("op", "("):
                raise Untranslatable("sizeof without (")
            k2, v2 = self.eat()
            if self.eat() != ("op", ")"):
                raise Untranslatable("sizeof(...) too complex")
            key = "sizeof(%s)" % v2
            if key not in self.names:
                raise Untranslatable("unknown %s" % key)
            return self.names[key]
        if k == "id":
            if v not in self.names:
                raise Untranslatable("unknown identifier %s" % v)
            return self.names[v]
        if (k, v) == ("op", "("):
            e = self.sum()
            if self.eat() != ("op", ")"):
                raise Untranslatable("missing )")
            return "(" + e + ")"
        if (k, v) == ("op", "-"):
            return "(- " + self.atom() + ")"
        raise Untranslatable("unexpected token %r" % (v,))

    def prod(self):
        e = self.atom()
        while self.peek() == ("op", "*"):
            self.eat(); e = "(%s * %s)" % (e, self.atom())
        return e

    def sum(self):
        e = self.prod()
        while self.peek() in (("op", "+"), ("op", "-")):
            _, o = self.eat(); e = "(%s %s %s)" % (e, o, self.prod())
        return e

    def cond(self):
        a = self.sum()
        k, o = self.eat()
        b = self.sum()
        if self.i != len(self.t):
            raise Untranslatable("trailing tokens in condition")
        tr = {">=": "(%s <=? %s)" % (b, a), ">": "(%s <? %s)" % (b, a),
              "<=": "(%s <=? %s)" % (a, b), "<": "(%s <? %s)" % (a, b),
              "==": "(%s =? %s)" % (a, b), "!=": "(negb (%s =? %s))" % (a, b)}
        if k != "op" or o not in tr:
            raise Untranslatable("unsupported comparison %r" % (o,))
        return tr[o]


def expr(s, names):
    p = ExprParser(tokenize(s), names)
    e = p.sum()
    if p.i != len(p.t):
        raise Untranslatable("trailing tokens in %r" % s)
    return e


def cond(s, names):
    return ExprParser(tokenize(s), names).cond()


def strip_comments(t):
    return re.sub(r"/\*.*?\*/", "", t, flags=re.S)


def define(text, name):
    m = re.search(r"^\s*#\s*define\s+%s\s+(\(?\s*-?\d+\s*\)?)\s*$" % name, text, re.M)
    if not m:
        raise Untranslatable("no integer #define %s" % name)
    return int(m.group(1).strip("() \t"))


def split_args(s):
    """split the text after an opening parenthesis into top-level comma separated arguments"""
    args, depth, cur, instr = [], 0, "", False
    for i, c in enumerate(s):
        if instr:
            cur += c
            if c == '"' and s[i - 1] != "\\":
                instr = False
            continue
        if c == '"':
            instr = True; cur += c
        elif c == "(":
            depth += 1; cur += c
        elif c == ")":
            if depth == 0:
                args.append(cur.strip()); return args
            depth -= 1; cur += c
        elif c == "," and depth == 0:
            args.append(cur.strip()); cur = ""
        else:
            cur += c
    raise Untranslatable("unbalanced call")


def generate():
    problems = []
    vals = {}
    utils = strip_comments(open(os.path.join(common.REPO, "back", "utils.c")).read())
    scan = strip_comments(open(os.path.join(common.REPO, "front", "scanner.l")).read())
    lines = ["(* GENERATED by gen/gen_frontconsts.py from /repo/back/utils.c and /repo/front/scanner.l",
             "   on every run of the C05 check — do not edit.  The theorems of Front/MsgBufProofs.v and",
             "   Front/UseStackProofs.v are about exactly these values and expressions. *)",
             "From Coq Require Import ZArith Bool.", "Local Open Scope Z_scope.", ""]
    try:
        vals["MAX_MSG_SIZE"] = define(utils, "MAX_MSG_SIZE")
        lines.append("Definition MAX_MSG_SIZE : Z := %d." % vals["MAX_MSG_SIZE"])
        # the message printer is found by what it does (the static function that declares
        # msg_buf[]), not by its name: a rename must not break the tie
        m = None
        for fm in re.finditer(r"static\s+void\s+(\w+)\s*\([^)]*\)\s*\{.*?\n\}", utils, re.S):
            if re.search(r"\bmsg_buf\s*\[", fm.group(0)):
                m = fm
                break
        if not m:
            raise Untranslatable("print_msg not found")
        body = m.group(0)
        names = {"MAX_MSG_SIZE": "MAX_MSG_SIZE"}
        mb = re.search(r"char\s+msg_buf\s*\[([^\]]+)\]", body)
        if not mb:
            raise Untranslatable("declaration of msg_buf[] not found in print_msg")
        lines.append("(* char msg_buf[%s] *)" % mb.group(1).strip())
        lines.append("Definition MSG_BUF_SIZE : Z := %s." % expr(mb.group(1), names))
        names["sizeof(msg_buf)"] = "MSG_BUF_SIZE"
        ms = re.search(r"msg_len\s*=\s*snprintf\s*\(", body)
        if not ms:
            raise Untranslatable("`msg_len = snprintf(` not found in print_msg")
        a = split_args(body[ms.end():])
        if a[0] != "msg_buf":
            raise Untranslatable("snprintf target is %r, expected msg_buf" % a[0])
        lines.append("(* msg_len = snprintf(msg_buf, %s, ...) *)" % a[1])
        lines.append("Definition msg_prefix_limit : Z := %s." % expr(a[1], names))
        mv = re.search(r"msg_len\s*\+=\s*vsnprintf\s*\(", body)
        if not mv:
            raise Untranslatable("`msg_len += vsnprintf(` not found in print_msg")
        # statements touching msg_len between the two calls: only a clamp
        #     if (msg_len OP E1) { msg_len = E2; }
        # is understood (absent: msg_len keeps the value returned by snprintf)
        semi = body.index(";", ms.end() + body[ms.end():].index(")"))
        between = body[semi + 1:mv.start()]
        names_len = dict(names); names_len["msg_len"] = "len"
        mc = re.search(r"if\s*\(\s*(msg_len\s*(?:>=|>|==)\s*[^)]+)\)\s*\{?\s*msg_len\s*=\s*([^;]+);\s*\}?", between)
        rest = between[:mc.start()] + between[mc.end():] if mc else between
        if "msg_len" in rest or "msg_buf" in rest:
            raise Untranslatable("statement touching msg_len/msg_buf between snprintf and vsnprintf not understood: %r" % rest.strip()[:120])
        if mc:
            lines.append("(* if (%s) msg_len = %s; *)" % (mc.group(1).strip(), mc.group(2).strip()))
            lines.append("Definition msg_len_after_prefix (len : Z) : Z := if %s then %s else len." % (
                cond(mc.group(1), names_len), expr(mc.group(2), names_len)))
            vals["msg_len_clamp_src"] = "if (%s) msg_len = %s" % (mc.group(1).strip(), mc.group(2).strip())
        else:
            lines.append("(* msg_len is used as returned by snprintf *)")
            lines.append("Definition msg_len_after_prefix (len : Z) : Z := len.")
            vals["msg_len_clamp_src"] = "(none)"
        a = split_args(body[mv.end():])
        if re.sub(r"\s+", "", a[0]) != "msg_buf+msg_len":
            raise Untranslatable("vsnprintf target is %r, expected msg_buf + msg_len" % a[0])
        names2 = dict(names); names2["msg_len"] = "len"
        lines.append("(* msg_len += vsnprintf(msg_buf + msg_len, %s, ...) *)" % a[1])
        lines.append("Definition msg_body_limit (len : Z) : Z := %s." % expr(a[1], names2))
        vals["msg_body_limit_src"] = a[1]
        lines.append("")
    except Untranslatable as e:
        problems.append("back/utils.c print_msg: %s" % e)
    try:
        for n in ("MAX_USE_DEPTH", "MAX_FILE_NAME_LEN", "MAX_NEVER_PATH_LEN"):
            vals[n] = define(scan, n)
            lines.append("Definition %s : Z := %d." % (n, vals[n]))
        names = {"MAX_USE_DEPTH": "MAX_USE_DEPTH"}
        ma = re.search(r"use_descr\s+use_stack\s*\[([^\]]+)\]", scan)
        if not ma:
            raise Untranslatable("declaration of use_stack[] not found")
        lines.append("(* use_descr use_stack[%s] *)" % ma.group(1).strip())
        lines.append("Definition USE_STACK_SIZE : Z := %s." % expr(ma.group(1), names))
        mu = re.search(r"^<USE>\[a-zA-Z_\./\]\+\s*\{(.*?)^\}", scan, re.S | re.M)
        if not mu:
            raise Untranslatable("<USE> rule not found")
        rule = mu.group(1)
        cut = rule.find("moduletab_lookup_module")
        if cut < 0:
            raise Untranslatable("<USE> rule: moduletab_lookup_module not found")
        names3 = dict(names); names3["use_stack_ptr"] = "ptr"
        guards = re.findall(r"if\s*\(\s*(use_stack_ptr[^)]*)\)", rule[:cut])
        if len(guards) > 1:
            raise Untranslatable("<USE> rule: more than one depth guard")
        if guards:
            lines.append("(* <USE> rule: if (%s) { \"module uses are nested too deep\" ... } *)" % guards[0].strip())
            lines.append("Definition use_guard (ptr : Z) : bool := %s." % cond(guards[0], names3))
            vals["use_guard_src"] = guards[0].strip()
        else:
            lines.append("(* <USE> rule: no depth guard in front of the moduletab lookup *)")
            lines.append("Definition use_guard (ptr : Z) : bool := false.")
            vals["use_guard_src"] = "(none)"
        if not re.search(r"use_stack\s*\[\s*use_stack_ptr\s*\+\+\s*\]\s*=\s*descr\s*;", rule[cut:]):
            raise Untranslatable("<USE> rule: push `use_stack[use_stack_ptr++] = descr;` not found")
        me = re.search(r"^<<EOF>>\s*\{(.*?)^\}", scan, re.S | re.M)
        if not me or not re.search(r"if\s*\(\s*--\s*use_stack_ptr\s*<\s*0\s*\)|(?:use_stack_ptr\s*--|--\s*use_stack_ptr|use_stack_ptr\s*-=\s*1)\s*;\s*if\s*\(\s*use_stack_ptr\s*<\s*0\s*\)", me.group(1)):
            raise Untranslatable("<<EOF>> rule: `if (--use_stack_ptr < 0)` not found")
        if not re.search(r"moduletab_add_module\s*\(\s*modtab\s*,", rule[cut:]):
            raise Untranslatable("<USE> rule: moduletab_add_module not found")
    except Untranslatable as e:
        problems.append("front/scanner.l: %s" % e)
    path = os.path.join(common.COQ, "Gen", "FrontConsts.v")
    changed = False
    if not problems:
        changed = common.write_if_changed(path, "\n".join(lines) + "\n")
    return {"values": vals, "problems": problems, "changed": changed, "path": path}


if __name__ == "__main__":
    r = generate()
    print(r)
    sys.exit(1 if r["problems"] else 0)
