(* Extraction of the reference evaluator (engine E5, C02/C08) for the source-level differential
   harness.  ExtrOcamlBasic only: nat, N, Z, positive stay extracted datatypes;
   harness/ocaml/eval/conv.ml converts them.
   Model sources: NV.Src.Syntax NV.Src.Eval *)
From Coq Require Import ExtrOcamlBasic.
From NV Require Import Src.Syntax Src.Eval.

Extraction "evalmodel.ml"
  fd_name fd_params fd_ret fd_body fd_catches fd_catch_all
  wrap32 run_program.
