(* The bytecode verifier: a checker of per-address certificates (owner function, depth above
   the frame base, depths of the MARKs still open).  Certificates may come from anywhere (the
   OCaml driver infers them by forward propagation); only this checker is trusted by the
   soundness theorem VerifySound.verify_sound.  DESIGN.md §5 C07. *)
From Coq Require Import ZArith List Arith Bool Lia.
From NV Require Import Gen.Opcodes Verifier.Shape Verifier.Effect.
Import ListNotations.

Inductive acert :=
| CNone                                   (* not reachable along any static path *)
| CNorm (f : nat) (d : nat) (os : list nat)
| CExc (f : nat).                         (* handler entry of f: any depth, any open marks *)

(* function metadata reported by the emitter (hook H3): entry address, parameter count, ffi *)
Record fmeta := { m_addr : nat; m_np : nat; m_ffi : bool }.

Section Check.
Variable prog : list rinstr.
Variable exct : list (nat * nat).          (* (block_addr, handler_addr), as in the module *)
Variable metas : list fmeta.
Variable entry : nat.
Variable certs : list acert.

Definition cert (a : nat) : acert := nth a certs CNone.
Definition code (a : nat) : option ainstr := decode prog a.

Fixpoint find_meta (l : list fmeta) (g : nat) : option fmeta :=
  match l with
  | [] => None
  | m :: t => if m_addr m =? g then Some m else find_meta t g
  end.

Definition np (g : nat) : nat := match find_meta metas g with Some m => m_np m | None => 0 end.
Definition is_ffi (g : nat) : bool := match find_meta metas g with Some m => m_ffi m | None => false end.
Definition is_entry (g : nat) : bool := match find_meta metas g with Some _ => true | None => false end.
(* frame base above P: the parameters, except in FFI bodies (FUNC_FFI pops them itself) *)
Definition base (g : nat) : nat := if is_ffi g then 0 else np g.

(* exception table lookup: handler of the last block starting at or before a *)
Fixpoint handler_from (l : list (nat * nat)) (a : nat) (acc : option nat) : option nat :=
  match l with
  | [] => acc
  | (b, h) :: t => if b <=? a then handler_from t a (Some h) else acc
  end.
Definition handler (a : nat) : option nat := handler_from exct a None.

Fixpoint sorted_blocks (l : list (nat * nat)) : bool :=
  match l with
  | (b1, _) :: (((b2, _) :: _) as t) => (b1 <? b2) && sorted_blocks t
  | _ => true
  end.

Definition avail (d : nat) (os : list nat) : nat :=
  match os with [] => d | o :: _ => d - (o + 5) end.

Fixpoint os_ok (d : nat) (os : list nat) : bool :=
  match os with
  | [] => true
  | o :: t => (o + 5 <=? d) && os_ok o t
  end.

Definition hdr_free (os : list nat) (pos : nat) : bool :=
  forallb (fun o => (pos <? o) || (o + 5 <=? pos)) os.

Definition read_chk (f d : nat) (os : list nat) (k : nat) : bool :=
  (k <? d + base f) && (if k <? d then hdr_free os (d - 1 - k) else true).

Definition list_eqb (a b : list nat) : bool :=
  (length a =? length b) && forallb (fun p => fst p =? snd p) (combine a b).

Definition succ_ok (t f d : nat) (os : list nat) : bool :=
  match cert t with
  | CNorm f' d' os' => (f =? f') && (d =? d') && list_eqb os os'
  | CExc f' => (f =? f') && (d =? 0) && (match os with [] => true | _ => false end)
  | CNone => false    (* a handler is entered by normal flow only at depth 0 (clause did not match) *)
  end.

Definition exc_ok (t f : nat) : bool :=
  match cert t with CExc f' => f =? f' | _ => false end.

(* the handler of a is a certified handler entry of f that lies AFTER a: handlers follow the
   code they guard (body -> first clause, clause i -> clause i+1, last clause -> RETHROW), so
   following handler links strictly increases the address (Verifier/Unwind.v,
   handler_chain_finite) *)
Definition handler_ok (a f : nat) : bool :=
  match handler a with Some h => (a <? h) && exc_ok h f | None => false end.

(* the LABEL a handler block is entered at is the last address of the block it closes, so its
   own table entry is that LABEL itself: not before a *)
Definition handler_ok_le (a f : nat) : bool :=
  match handler a with Some h => (a <=? h) && exc_ok h f | None => false end.

Definition entry_cert_ok (g : nat) : bool :=
  match cert g with
  | CNorm g' d os => (g =? g') && (d =? np g - base g) && (match os with [] => true | _ => false end)
  | _ => false
  end.

(* a CALL that directly follows ID_FUNC_ADDR g (the way the emitter calls a function it knows: args,
   environment vector, ID_FUNC_ADDR g, CALL) must find exactly np g argument slots between the frame
   header and the function value: len - 1 - F = np g, where len - F is d - (o + 5) inside an open MARK
   at depth o and d + base f for a frame-reusing (tail) call *)
Definition direct_arity_ok (a f d : nat) (os : list nat) : bool :=
  match code (a - 1) with
  | Some (AMkFunc g) =>
      if 1 <=? a then
        match os with
        | [] => d + base f =? np g + 1
        | o :: _ => d =? o + 6 + np g
        end
      else true
  | _ => true
  end.

Definition check_norm (a f d : nat) (os : list nat) (i : ainstr) : bool :=
  os_ok d os &&
  match i with
  | AOp reads pops pushes =>
      (pops <=? avail d os) && forallb (read_chk f d os) reads &&
      succ_ok (S a) f (d - pops + pushes) os && handler_ok a f
  | AJump t => succ_ok t f d os
  | AJumpz t => (1 <=? avail d os) && succ_ok t f (d - 1) os && succ_ok (S a) f (d - 1) os
  | AMark r =>
      succ_ok (S a) f (d + 5) (d :: os) &&
      (match cert r with
       | CNorm f' d' os' => (f =? f') && (d' =? d + 1) && list_eqb os os'
       | _ => false end) &&
      (1 <=? r) && handler_ok (r - 1) f
  (* a CALL with no open MARK re-uses the running frame (tail call): RET of the callee then
     unwinds through the header below P, which exists only inside a function -- at top level
     (P = 0) the callee's RET would find no header (Crash BadHeader), hence is_entry f *)
  | ACall => (1 <=? avail d os) && handler_ok a f &&
             (match os with [] => (1 <=? d + base f) && is_entry f | _ => true end) &&
             direct_arity_ok a f d os
  | ARet ffi => (match os with [] => true | _ => false end) && (d =? 1) && (Bool.eqb ffi (is_ffi f)) &&
                is_entry f
  | ARethrow => false
  | AClear _ => false
  | ASlide q m =>
      if q =? 0 then succ_ok (S a) f d os
      else (q <=? d) &&
           (match os with [] => q + m <=? d + base f | _ => q + m <=? avail d os end) &&
           succ_ok (S a) f (d - q) os
  | AMkFunc g => (1 <=? avail d os) && is_entry g && entry_cert_ok g && succ_ok (S a) f d os
  | APushParam => (f =? 0) && succ_ok (S a) f (d + np entry) os
  | AFfi r => (a =? f) && is_ffi f && (d =? np f) && (match os with [] => true | _ => false end) &&
              (match cert r with CNorm f' 1 [] => f =? f' | _ => false end) && handler_ok a f
  | AHalt => f =? 0
  | AUnhandled => f =? 0
  | ABad => false
  end.

Definition check_exc (a f : nat) (i : ainstr) : bool :=
  match i with
  (* the shape machine lets every AOp fault (observed ip' <> a+1 is read as a jump to the
     handler of a), so the handler of a handler-entry LABEL must be certified as well *)
  | AOp [] 0 0 => exc_ok (S a) f && handler_ok_le a f
  (* a clause: CLEAR_STACK nparams; a fault inside it (and the "does not match" exit, by the
     emitter's layout) goes to the next handler, which lies after it *)
  | AClear n => (n =? np f) && negb (is_ffi f) && is_entry f && succ_ok (S a) f 0 [] && handler_ok a f
  | ARethrow => is_entry f
  | AUnhandled => f =? 0
  | _ => false
  end.

Definition check_at (a : nat) : bool :=
  match cert a with
  | CNone => true
  | CNorm f d os => match code a with Some i => check_norm a f d os i | None => false end
  | CExc f => match code a with Some i => check_exc a f i | None => false end
  end.

Definition check_meta (m : fmeta) : bool :=
  let g := m_addr m in
  (1 <=? g) && entry_cert_ok g &&
  match code g with
  | Some (AOp [] 0 0) => negb (m_ffi m)
  | Some (AFfi _) => m_ffi m
  | _ => false
  end.

Fixpoint nodup_addr (l : list fmeta) : bool :=
  match l with
  | [] => true
  | m :: t => negb (existsb (fun m' => m_addr m' =? m_addr m) t) && nodup_addr t
  end.

Definition check_all : bool :=
  (match cert 0 with CNorm 0 0 [] => true | _ => false end) &&
  sorted_blocks exct &&
  nodup_addr metas && forallb check_meta metas &&
  is_entry entry &&
  (length certs =? length prog) &&
  forallb check_at (seq 0 (length prog)).

(* first address whose local check fails (diagnostics only) *)
Definition first_bad : option nat :=
  find (fun a => negb (check_at a)) (seq 0 (length prog)).

End Check.
