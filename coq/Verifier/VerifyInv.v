(* The frame-chain invariant of the shape machine (Verifier/Shape.v) under an accepted
   certificate (Verifier/Verify.v), and its structural lemmas: everything that does not
   need the global acceptance hypothesis.  Used by Verifier/VerifySound.v.  DESIGN.md §5 C07.

   No axioms. *)
From Coq Require Import List Arith Bool Lia.
From NV Require Import Gen.Opcodes Verifier.Shape Verifier.Effect Verifier.Verify.
Import ListNotations.

(* ------------------------------------------------------------------ lists *)

Lemma nth_firstn {A} (l : list A) n i : i < n -> nth_error (firstn n l) i = nth_error l i.
Proof.
  revert l i. induction n; intros l i H; [lia|].
  destruct l; [now destruct i|]. destruct i; cbn; auto. apply IHn; lia.
Qed.

Lemma nth_repeat {A} (x : A) n j : j < n -> nth_error (repeat x n) j = Some x.
Proof.
  revert j. induction n; intros j H; [lia|]. destruct j; cbn; auto. apply IHn; lia.
Qed.

Lemma nth_skipn {A} (l : list A) n i : nth_error (skipn n l) i = nth_error l (n + i).
Proof.
  revert l. induction n; intros l; cbn; auto. destruct l; cbn; auto. now destruct i.
Qed.

Definition agree (l l' : list slot) (n : nat) := forall i, i < n -> nth_error l i = nth_error l' i.

Lemma agree_le l l' n m : agree l l' n -> m <= n -> agree l l' m.
Proof. intros A H i Hi. apply A. lia. Qed.

Lemma agree_repl l n x m : m <= n -> n <= length l -> agree l (firstn n l ++ x) m.
Proof.
  intros H1 H2 i Hi. rewrite nth_error_app1 by (rewrite firstn_length; lia).
  symmetry. apply nth_firstn. lia.
Qed.

Lemma agree_firstn l n m : m <= n -> agree l (firstn n l) m.
Proof. intros H i Hi. symmetry. apply nth_firstn. lia. Qed.

Lemma agree_app l x m : m <= length l -> agree l (l ++ x) m.
Proof. intros H i Hi. symmetry. apply nth_error_app1. lia. Qed.

(* a list of value slots *)
Definition allval (x : list slot) := forall j, j < length x -> nth_error x j = Some SVal.

Lemma allval_nil : allval [].
Proof. intros j H. cbn in H. lia. Qed.

Lemma allval_one : allval [SVal].
Proof. intros j H. cbn in H. destruct j; [reflexivity|lia]. Qed.

Lemma allval_repeat n : allval (repeat SVal n).
Proof. intros j H. rewrite repeat_length in H. now apply nth_repeat. Qed.

(* ------------------------------------------------------------------ booleans *)

Ltac bool_hyps := repeat match goal with
  | H : _ && _ = true |- _ => apply andb_true_iff in H; destruct H
  | H : (_ <=? _) = true |- _ => apply Nat.leb_le in H
  | H : (_ <? _) = true |- _ => apply Nat.ltb_lt in H
  | H : (_ =? _) = true |- _ => apply Nat.eqb_eq in H
  | H : (_ <=? _) = false |- _ => apply Nat.leb_gt in H
  | H : (_ <? _) = false |- _ => apply Nat.ltb_ge in H
  | H : (_ =? _) = false |- _ => apply Nat.eqb_neq in H
  end.

Lemma list_eqb_eq : forall a b, list_eqb a b = true -> a = b.
Proof.
  unfold list_eqb. induction a as [|x a IH]; intros [|y b] H; cbn in H; try discriminate; auto.
  apply andb_true_iff in H. destruct H as [H1 H2]. apply andb_true_iff in H2. destruct H2 as [H2 H3].
  apply Nat.eqb_eq in H2. f_equal; auto. apply IH. now rewrite H1, H3.
Qed.

Lemma os_ok_in : forall os d o, os_ok d os = true -> In o os -> o + 5 <= d.
Proof.
  induction os as [|o1 t IH]; intros d o H Hin; [destruct Hin|].
  cbn [os_ok] in H. apply andb_true_iff in H. destruct H as [H1 H2]. apply Nat.leb_le in H1.
  destruct Hin as [<-|Hin]; [lia|]. specialize (IH _ _ H2 Hin). lia.
Qed.

Lemma os_ok_mono os d d' : os_ok d os = true -> d <= d' -> os_ok d' os = true.
Proof.
  destruct os as [|o t]; cbn [os_ok]; auto. intros H Hd.
  apply andb_true_iff in H. destruct H as [H1 H2]. apply Nat.leb_le in H1.
  apply andb_true_iff. split; auto. apply Nat.leb_le. lia.
Qed.

(* ------------------------------------------------------------------ the invariant *)

Section Inv.
Variable exct : list (nat * nat).
Variable metas : list fmeta.
Variable certs : list acert.

Local Notation cert := (Verify.cert certs).
Local Notation np := (Verify.np metas).
Local Notation base := (Verify.base metas).
Local Notation is_entry := (Verify.is_entry metas).
Local Notation handler_ok := (Verify.handler_ok exct certs).

Lemma base_le_np g : base g <= np g.
Proof. unfold Verify.base. destruct (is_ffi metas g); lia. Qed.

(* the state at address a is described by (f, d, os) *)
Definition cert_at (a f d : nat) (os : list nat) : Prop :=
  cert a = CNorm f d os \/ cert a = CExc f.

Lemma succ_ok_at t f d os : succ_ok certs t f d os = true -> cert_at t f d os.
Proof.
  unfold succ_ok, cert_at. destruct (cert t) as [|f' d' os'|f']; intros H; [discriminate| |].
  - bool_hyps. subst. left. f_equal. symmetry. now apply list_eqb_eq.
  - bool_hyps. subst. now right.
Qed.

(* the five header slots written by MARK, at indices h .. h+4 *)
Definition hdr (l : list slot) (h p f r c : nat) : Prop :=
  nth_error l h = Some (SPP p) /\ nth_error l (S h) = Some SLine /\
  nth_error l (S (S h)) = Some SGp /\ nth_error l (S (S (S h))) = Some (SFP f) /\
  nth_error l (S (S (S (S h)))) = Some (SIP r c).

Lemma hdr_agree l l' n h p f r c : agree l l' n -> h + 5 <= n -> hdr l h p f r c -> hdr l' h p f r c.
Proof.
  intros A Hn (H1 & H2 & H3 & H4 & H5). unfold hdr. rewrite <- !A by lia. auto 6.
Qed.

Lemma hdr_app l p f r c : hdr (l ++ [SPP p; SLine; SGp; SFP f; SIP r c]) (length l) p f r c.
Proof.
  unfold hdr. rewrite !nth_error_app2 by lia. rewrite Nat.sub_diag.
  replace (S (length l) - length l) with 1 by lia.
  replace (S (S (length l)) - length l) with 2 by lia.
  replace (S (S (S (length l))) - length l) with 3 by lia.
  replace (S (S (S (S (length l)))) - length l) with 4 by lia.
  cbn. auto 6.
Qed.

(* the frames under construction inside the running function fn (frame base Pc + base fn):
   os lists the depths of the open MARKs, innermost first; Fc is the F register *)
Fixpoint opens_ok (l : list slot) (Pc fn : nat) (os : list nat) (Fc : nat) : Prop :=
  match os with
  | [] => Fc = Pc
  | o :: os' =>
      Fc = Pc + base fn + o + 5 /\
      exists Fprev r,
        hdr l (Pc + base fn + o) Pc Fprev r fn /\ Fprev <= Pc + base fn + o /\
        1 <= r /\ cert r = CNorm fn (S o) os' /\ handler_ok (r - 1) fn = true /\
        opens_ok l Pc fn os' Fprev
  end.

Definition in_hdr (Pc fn : nat) (os : list nat) (i : nat) : Prop :=
  exists o, In o os /\ Pc + base fn + o <= i /\ i < Pc + base fn + o + 5.

(* every slot of the running frame below n is a value or lies in an open header *)
Definition vals_below (l : list slot) (Pc fn : nat) (os : list nat) (n : nat) : Prop :=
  forall i, Pc <= i -> i < n -> in_hdr Pc fn os i \/ nth_error l i = Some SVal.

Record caller := { cP0 : nat; cF0 : nat; cr : nat; cg : nat; cd : nat; cos : list nat }.

(* the suspended callers: the header below Pc belongs to a CALL of function cg, which
   resumes at cr with depth cd (the header replaced by exactly the result) *)
Fixpoint chain (l : list slot) (Pc : nat) (cs : list caller) : Prop :=
  match cs with
  | [] => True
  | c :: cs' =>
      5 <= Pc /\ hdr l (Pc - 5) (cP0 c) (cF0 c) (cr c) (cg c) /\
      cP0 c <= cF0 c /\ cF0 c <= Pc - 5 /\
      1 <= cr c /\ cert (cr c) = CNorm (cg c) (cd c) (cos c) /\
      handler_ok (cr c - 1) (cg c) = true /\
      Pc - 5 + 1 = cP0 c + base (cg c) + cd c /\ os_ok (cd c) (cos c) = true /\
      opens_ok l (cP0 c) (cg c) (cos c) (cF0 c) /\
      vals_below l (cP0 c) (cg c) (cos c) (Pc - 5) /\
      (is_entry (cg c) = true -> cs' <> []) /\
      (cg c = 0 -> cP0 c = 0 /\ cs' = []) /\
      chain l (cP0 c) cs'
  end.

Definition frame_ok (l : list slot) (Pc Fc f d : nat) (os : list nat) (cs : list caller) : Prop :=
  os_ok d os = true /\ length l = Pc + base f + d /\ opens_ok l Pc f os Fc /\ chain l Pc cs /\
  vals_below l Pc f os (length l) /\ (is_entry f = true -> cs <> []) /\
  (* top-level code (function 0) runs at P = 0 with no suspended caller *)
  (f = 0 -> Pc = 0 /\ cs = []).

(* --- agreement below a bound *)

Lemma opens_P_le_F l Pc fn os Fc : opens_ok l Pc fn os Fc -> Pc <= Fc.
Proof. destruct os; cbn [opens_ok]; intros H; [lia|]. destruct H as (-> & _). lia. Qed.

Lemma opens_agree l l' Pc fn : forall os Fc,
  agree l l' Fc -> opens_ok l Pc fn os Fc -> opens_ok l' Pc fn os Fc.
Proof.
  induction os as [|o os IH]; intros Fc A H; cbn [opens_ok] in *; auto.
  destruct H as (HF & Fp & r & Hh & Hle & H1 & Hc & Hk & Ho). split; auto.
  exists Fp, r. split; [eapply hdr_agree; eauto; lia|]. do 4 (split; auto).
  apply IH; auto. eapply agree_le; eauto. lia.
Qed.

Lemma vals_agree l l' Pc fn os n : agree l l' n -> vals_below l Pc fn os n -> vals_below l' Pc fn os n.
Proof. intros A H i H1 H2. destruct (H i H1 H2) as [E|E]; [now left|right]. now rewrite <- A. Qed.

Lemma vals_le l Pc fn os n m : vals_below l Pc fn os n -> m <= n -> vals_below l Pc fn os m.
Proof. intros H Hm i H1 H2. apply H; lia. Qed.

Lemma chain_agree l l' : forall cs Pc, agree l l' Pc -> chain l Pc cs -> chain l' Pc cs.
Proof.
  induction cs as [|c cs IH]; intros Pc A H; cbn [chain] in *; auto.
  destruct H as (H5 & Hh & HPF & HF & H1 & Hc & Hk & Hlen & Hos & Ho & Hv & He & Ht & Hch).
  split; [auto|]. split; [eapply hdr_agree; eauto; lia|]. do 7 (split; [auto|]).
  split; [eapply opens_agree; eauto; eapply agree_le; eauto; lia|].
  split; [eapply vals_agree; eauto; eapply agree_le; eauto; lia|].
  split; [auto|]. split; [auto|]. apply IH; auto. eapply agree_le; eauto. lia.
Qed.

(* --- consequences of frame_ok *)

Lemma frame_P_le_F l Pc Fc f d os cs : frame_ok l Pc Fc f d os cs -> Pc <= Fc.
Proof. intros (_ & _ & Ho & _). eapply opens_P_le_F; eauto. Qed.

Lemma frame_F_le l Pc Fc f d os cs : frame_ok l Pc Fc f d os cs -> Fc + avail d os <= length l.
Proof.
  intros (Hos & Hlen & Ho & _). destruct os as [|o os']; cbn [opens_ok avail os_ok] in *.
  - lia.
  - destruct Ho as (-> & _). bool_hyps. lia.
Qed.

Lemma vals_aboveF l Pc Fc f d os cs : frame_ok l Pc Fc f d os cs ->
  forall i, Fc <= i -> i < length l -> nth_error l i = Some SVal.
Proof.
  intros (Hos & Hlen & Ho & _ & Hv & _ & _) i H1 H2.
  pose proof (opens_P_le_F _ _ _ _ _ Ho) as HPF.
  destruct (Hv i ltac:(lia) H2) as [(o' & Hin & Ha & Hb)|E]; [|exact E].
  exfalso. destruct os as [|o os']; [destruct Hin|].
  cbn [opens_ok] in Ho. destruct Ho as (HF & _).
  cbn [os_ok] in Hos. apply andb_true_iff in Hos. destruct Hos as [_ Hos].
  destruct Hin as [<-|Hin]; [lia|]. pose proof (os_ok_in _ _ _ Hos Hin). lia.
Qed.

Lemma top_val l Pc Fc f d os cs : frame_ok l Pc Fc f d os cs -> 1 <= avail d os -> top_is_val l = true.
Proof.
  intros HF Ha. pose proof (frame_F_le _ _ _ _ _ _ _ HF).
  unfold top_is_val. rewrite (vals_aboveF _ _ _ _ _ _ _ HF) by lia. reflexivity.
Qed.

Lemma read_ok_chk l Pc Fc f d os cs k :
  frame_ok l Pc Fc f d os cs -> read_chk metas f d os k = true -> read_ok l Pc k = true.
Proof.
  intros (Hos & Hlen & Ho & _ & Hv & _ & _) H. unfold read_chk in H. unfold read_ok.
  apply andb_true_iff in H. destruct H as [H1 H2]. apply Nat.ltb_lt in H1.
  apply andb_true_iff. split; [apply Nat.ltb_lt; lia|].
  destruct (Hv (length l - 1 - k) ltac:(lia) ltac:(lia)) as [(o & Hin & Ha & Hb)|E]; [|now rewrite E].
  exfalso. destruct (k <? d) eqn:Ek; [|apply Nat.ltb_ge in Ek; lia]. apply Nat.ltb_lt in Ek.
  unfold hdr_free in H2. rewrite forallb_forall in H2. specialize (H2 o Hin).
  apply orb_true_iff in H2. destruct H2 as [H2|H2]; [apply Nat.ltb_lt in H2|apply Nat.leb_le in H2]; lia.
Qed.

(* --- frame transformers *)

(* keep the first n >= F slots, push value slots *)
Lemma frame_repl l Pc Fc f d os cs n x d' :
  frame_ok l Pc Fc f d os cs -> Fc <= n -> n <= length l -> allval x ->
  n + length x = Pc + base f + d' ->
  frame_ok (firstn n l ++ x) Pc Fc f d' os cs.
Proof.
  intros HF Hn1 Hn2 Hx Hd'. pose proof (frame_P_le_F _ _ _ _ _ _ _ HF) as HPF.
  destruct HF as (Hos & Hlen & Ho & Hch & Hv & He & Ht).
  assert (Hl' : length (firstn n l ++ x) = n + length x).
  { rewrite app_length, firstn_length. lia. }
  unfold frame_ok. split; [|split; [|split; [|split; [|split; [|split]]]]]; auto.
  - destruct os as [|o os']; [reflexivity|]. cbn [opens_ok os_ok] in *.
    destruct Ho as (HFc & _). apply andb_true_iff in Hos. destruct Hos as [_ Hos].
    apply andb_true_iff. split; auto. apply Nat.leb_le. lia.
  - lia.
  - eapply opens_agree; eauto. apply agree_repl; lia.
  - eapply chain_agree; eauto. apply agree_repl; lia.
  - rewrite Hl'. intros i H1 H2. destruct (Nat.lt_ge_cases i n) as [Hi|Hi].
    + destruct (Hv i H1 ltac:(lia)) as [E|E]; [now left|right].
      rewrite <- (agree_repl l n x n) by lia. exact E.
    + right. rewrite nth_error_app2 by (rewrite firstn_length; lia).
      rewrite firstn_length. apply Hx. lia.
Qed.

Lemma frame_trunc l Pc Fc f d os cs n d' :
  frame_ok l Pc Fc f d os cs -> Fc <= n -> n <= length l -> n = Pc + base f + d' ->
  frame_ok (firstn n l) Pc Fc f d' os cs.
Proof.
  intros HF H1 H2 H3. rewrite <- (app_nil_r (firstn n l)).
  eapply frame_repl; eauto using allval_nil. cbn. lia.
Qed.

(* MARK *)
Lemma frame_mark l Pc Fc f d os cs r :
  frame_ok l Pc Fc f d os cs -> 1 <= r -> cert r = CNorm f (S d) os -> handler_ok (r - 1) f = true ->
  frame_ok (l ++ [SPP Pc; SLine; SGp; SFP Fc; SIP r f]) Pc (length l + 5) f (d + 5) (d :: os) cs.
Proof.
  intros HF Hr Hc Hk. pose proof (frame_P_le_F _ _ _ _ _ _ _ HF) as HPF.
  pose proof (frame_F_le _ _ _ _ _ _ _ HF) as HFle.
  destruct HF as (Hos & Hlen & Ho & Hch & Hv & He & Ht).
  unfold frame_ok. split; [|split; [|split; [|split; [|split; [|split]]]]]; auto.
  - cbn [os_ok]. apply andb_true_iff. split; auto. apply Nat.leb_le. lia.
  - rewrite app_length. cbn. lia.
  - cbn [opens_ok]. split; [lia|]. exists Fc, r.
    split; [rewrite <- Hlen; apply hdr_app|]. split; [lia|]. do 3 (split; auto).
    eapply opens_agree; eauto. apply agree_app. lia.
  - eapply chain_agree; eauto. apply agree_app. lia.
  - rewrite app_length. cbn [length]. intros i H1 H2. destruct (Nat.lt_ge_cases i (length l)) as [Hi|Hi].
    + destruct (Hv i H1 Hi) as [(o & Hin & Ha)|E].
      * left. exists o. split; [now right|exact Ha].
      * right. rewrite nth_error_app1 by lia. exact E.
    + left. exists d. split; [now left|]. lia.
Qed.

(* CALL out of an open frame: the innermost open header becomes the caller record *)
Lemma frame_call_open l Pc Fc f d o os' cs g :
  frame_ok l Pc Fc f d (o :: os') cs -> 1 <= avail d (o :: os') -> length l - 1 - Fc = np g ->
  g <> 0 ->
  exists c, frame_ok (firstn (length l - 1) l) Fc Fc g (np g - base g) [] (c :: cs).
Proof.
  intros HF Hav Har Hg0. pose proof (frame_F_le _ _ _ _ _ _ _ HF) as HFle.
  pose proof (vals_aboveF _ _ _ _ _ _ _ HF) as Htop.
  pose proof (base_le_np g) as Hbg.
  destruct HF as (Hos & Hlen & Ho & Hch & Hv & He & Ht).
  cbn [opens_ok] in Ho. destruct Ho as (HFc & Fp & r & Hh & Hle & H1 & Hc & Hk & Ho').
  cbn [os_ok] in Hos. apply andb_true_iff in Hos. destruct Hos as [Hod Hos]. apply Nat.leb_le in Hod.
  cbn [avail] in Hav, HFle.
  pose proof (opens_P_le_F _ _ _ _ _ Ho') as HPFp.
  assert (A : agree l (firstn (length l - 1) l) Fc) by (apply agree_firstn; lia).
  exists {| cP0 := Pc; cF0 := Fp; cr := r; cg := f; cd := S o; cos := os' |}.
  unfold frame_ok. split; [|split; [|split; [|split; [|split; [|split]]]]].
  - reflexivity.
  - rewrite firstn_length. lia.
  - reflexivity.
  - cbn [chain cP0 cF0 cr cg cd cos].
    split; [lia|]. split; [replace (Fc - 5) with (Pc + base f + o) by lia; eapply hdr_agree; eauto; lia|].
    split; [auto|]. split; [lia|]. split; [auto|]. split; [auto|]. split; [auto|]. split; [lia|].
    split; [eapply os_ok_mono; eauto|].
    split; [eapply opens_agree; eauto; eapply agree_le; eauto; lia|].
    split.
    { intros i Hi1 Hi2. destruct (Hv i Hi1 ltac:(lia)) as [(o' & Hin & Ha & Hb)|E].
      - destruct Hin as [<-|Hin]; [lia|]. left. exists o'. auto.
      - right. rewrite <- A by lia. exact E. }
    split; [auto|]. split; [auto|]. eapply chain_agree; eauto. eapply agree_le; eauto. lia.
  - rewrite firstn_length. intros i Hi1 Hi2. right. rewrite nth_firstn by lia. apply Htop; lia.
  - discriminate.
  - intros E. now elim Hg0.
Qed.

(* CALL with no open frame: tail call re-using the frame *)
Lemma frame_call_tail l Pc Fc f d cs g :
  frame_ok l Pc Fc f d [] cs -> is_entry f = true -> 1 <= d -> length l - 1 - Fc = np g ->
  g <> 0 ->
  frame_ok (firstn (length l - 1) l) Fc Fc g (np g - base g) [] cs.
Proof.
  intros HF Hf Hd Har Hg0. pose proof (vals_aboveF _ _ _ _ _ _ _ HF) as Htop.
  pose proof (base_le_np g) as Hbg.
  destruct HF as (Hos & Hlen & Ho & Hch & Hv & He & Ht). cbn [opens_ok] in Ho. subst Fc.
  unfold frame_ok. split; [|split; [|split; [|split; [|split; [|split]]]]]; auto.
  - rewrite firstn_length. lia.
  - reflexivity.
  - eapply chain_agree; eauto. apply agree_firstn. lia.
  - rewrite firstn_length. intros i Hi1 Hi2. right. rewrite nth_firstn by lia. apply Htop; lia.
  - intros E. now elim Hg0.
Qed.

(* return into the caller recorded below Pc *)
Lemma chain_ret l Pc c cs' :
  chain l Pc (c :: cs') -> Pc <= length l ->
  frame_ok (firstn (Pc - 5) l ++ [SVal]) (cP0 c) (cF0 c) (cg c) (cd c) (cos c) cs'.
Proof.
  intros H HP. cbn [chain] in H.
  destruct H as (H5 & Hh & HPF & HF & H1 & Hc & Hk & Hlen & Hos & Ho & Hv & He & Ht & Hch).
  assert (Hl' : length (firstn (Pc - 5) l ++ [SVal]) = Pc - 5 + 1).
  { rewrite app_length, firstn_length. cbn. lia. }
  unfold frame_ok. split; [|split; [|split; [|split; [|split; [|split]]]]]; auto.
  - lia.
  - eapply opens_agree; eauto. apply agree_repl; lia.
  - eapply chain_agree; eauto. apply agree_repl; lia.
  - rewrite Hl'. intros i Hi1 Hi2. destruct (Nat.lt_ge_cases i (Pc - 5)) as [Hi|Hi].
    + destruct (Hv i Hi1 Hi) as [E|E]; [now left|right].
      rewrite <- (agree_repl l (Pc - 5) [SVal] (Pc - 5)) by lia. exact E.
    + right. rewrite nth_error_app2 by (rewrite firstn_length; lia). rewrite firstn_length.
      replace (i - Init.Nat.min (Pc - 5) (length l)) with 0 by lia. reflexivity.
Qed.

(* RETHROW out of the innermost open frame *)
Lemma frame_pop_open l Pc Fc f d o os' cs :
  frame_ok l Pc Fc f d (o :: os') cs ->
  exists Fprev r, 5 <= Fc /\ hdr l (Fc - 5) Pc Fprev r f /\ 1 <= r /\ handler_ok (r - 1) f = true /\
    frame_ok (firstn (Fc - 5) l ++ [SVal]) Pc Fprev f (S o) os' cs.
Proof.
  intros HF. pose proof (frame_F_le _ _ _ _ _ _ _ HF) as HFle.
  destruct HF as (Hos & Hlen & Ho & Hch & Hv & He & Ht).
  cbn [opens_ok] in Ho. destruct Ho as (HFc & Fp & r & Hh & Hle & H1 & Hc & Hk & Ho').
  cbn [os_ok] in Hos. apply andb_true_iff in Hos. destruct Hos as [Hod Hos]. apply Nat.leb_le in Hod.
  pose proof (opens_P_le_F _ _ _ _ _ Ho') as HPFp.
  exists Fp, r. split; [lia|]. split; [replace (Fc - 5) with (Pc + base f + o) by lia; exact Hh|].
  split; [auto|]. split; [auto|].
  assert (Hl' : length (firstn (Fc - 5) l ++ [SVal]) = Fc - 5 + 1).
  { rewrite app_length, firstn_length. cbn. lia. }
  unfold frame_ok. split; [|split; [|split; [|split; [|split; [|split]]]]]; auto.
  - eapply os_ok_mono; eauto.
  - lia.
  - eapply opens_agree; eauto. apply agree_repl; lia.
  - eapply chain_agree; eauto. apply agree_repl; lia.
  - rewrite Hl'. intros i Hi1 Hi2. destruct (Nat.lt_ge_cases i (Fc - 5)) as [Hi|Hi].
    + destruct (Hv i Hi1 ltac:(lia)) as [(o' & Hin & Ha & Hb)|E].
      * destruct Hin as [<-|Hin]; [lia|]. left. exists o'. auto.
      * right. rewrite <- (agree_repl l (Fc - 5) [SVal] (Fc - 5)) by lia. exact E.
    + right. rewrite nth_error_app2 by (rewrite firstn_length; lia). rewrite firstn_length.
      replace (i - Init.Nat.min (Fc - 5) (length l)) with 0 by lia. reflexivity.
Qed.

(* CLEAR_STACK (base f): back to depth 0, no open frame *)
Lemma frame_clear l Pc Fc f d os cs :
  frame_ok l Pc Fc f d os cs -> frame_ok (firstn (Pc + base f) l) Pc Pc f 0 [] cs.
Proof.
  intros HF. destruct HF as (Hos & Hlen & Ho & Hch & Hv & He & Ht).
  unfold frame_ok. split; [|split; [|split; [|split; [|split; [|split]]]]]; auto.
  - rewrite firstn_length. lia.
  - reflexivity.
  - eapply chain_agree; eauto. apply agree_firstn. lia.
  - rewrite firstn_length. intros i Hi1 Hi2.
    destruct (Hv i Hi1 ltac:(lia)) as [(o' & Hin & Ha & Hb)|E]; [lia|].
    right. rewrite nth_firstn by lia. exact E.
Qed.

End Inv.
