(* C15 (continuation) — the ISOLATION half over the third piece of process-global state, the WORKING DIRECTORY:
   "Compiling the same source always yields the same code and diagnostics, whatever was compiled (successfully or not)
   before it in the same process."

   Model: VM/ApiGlobalCwd.v — front/scanner.l fopen_path resolves every `use` by walking the elements of NEVER_PATH with
   chdir() and goes back with chdir(cwd) in the "found" branch and at the end of each round (the policy
   restore_on_found / restore_on_miss); a later nev_compile_file of a relative name, and relative NEVER_PATH elements of
   a later `use`, are resolved against wherever the process stands.  process3 adds the directory to the process state of
   VM/ApiGlobal.v (status word, scanner buffer).
   PROVED: under `cwd_restoring` no history of compiles moves the working directory, every compile resolves its file and
   its modules as in a fresh process, and — with `reinitialises` of Properties_C15b.v — every operation of any history over
   all three components gives what it gives in a fresh process; `cwd_restoring` is necessary (a two-compile history shows
   the difference as soon as either chdir(cwd) is missing).
   TIE: checks/c15.py records getcwd() after EVERY operation of every history on the real code (harness/api/apidrive.c,
   line CWD) and demands that it never moves (keys process:cwd-changed-by-<operation>); the never-path family compiles
   programs whose `use` is resolved through every shape of NEVER_PATH (unset, empty, relative / absolute / missing
   elements, several elements) given as string, absolute and relative file name, followed by compiles of relative names,
   judged by oracle (1) against a fresh process with the same environment.
   The file system (`fsys`) is a parameter of every statement.

   Only statements here; every proof is `exact <lemma>` into VM/ApiGlobalCwdProofs.v. *)
From Coq Require Import List Bool.
From NV Require Import VM.ApiGlobal VM.ApiGlobalProofs VM.ApiGlobalCwd VM.ApiGlobalCwdProofs.
Import ListNotations.

Theorem module_search_restores_working_directory :
  forall pol, cwd_restoring pol = true ->
  forall F home m path, snd (search pol F home home m path) = home.
Proof. exact ApiGlobalCwdProofs.search_restores_cwd. Qed.
Print Assumptions module_search_restores_working_directory.

Theorem working_directory_invariant_over_history :
  forall pol, cwd_restoring pol = true -> forall F os cur, snd (crun pol F cur os) = cur.
Proof. exact ApiGlobalCwdProofs.cwd_invariant_over_history. Qed.
Print Assumptions working_directory_invariant_over_history.

Theorem compiles_resolve_files_as_in_fresh_process :
  forall pol, cwd_restoring pol = true ->
  forall F home pre os,
    fst (crun pol F home (pre ++ os)) = fst (crun pol F home pre) ++ fst (crun pol F home os).
Proof. exact ApiGlobalCwdProofs.cwd_history_as_in_fresh_process. Qed.
Print Assumptions compiles_resolve_files_as_in_fresh_process.

Theorem working_directory_restore_necessary :
  forall pol, cwd_restoring pol = false ->
  exists F home pre o,
    fst (crun pol F home (pre ++ [o])) <> fst (crun pol F home pre) ++ fst (crun pol F home [o]).
Proof. exact ApiGlobalCwdProofs.cwd_restore_necessary. Qed.
Print Assumptions working_directory_restore_necessary.

(* status word + scanner buffer + working directory: any history of compiles, calls and host arithmetic *)
Theorem process3_history_as_in_fresh_process :
  forall fp sp cp, reinitialises fp sp = true -> cwd_restoring cp = true ->
  forall F home pre os,
    fst (grun3 fp sp cp F (mkproc3 fresh_process home) (pre ++ os)) =
    fst (grun3 fp sp cp F (mkproc3 fresh_process home) pre) ++ fst (grun3 fp sp cp F (mkproc3 fresh_process home) os).
Proof. exact ApiGlobalCwdProofs.process3_history_as_in_fresh_process. Qed.
Print Assumptions process3_history_as_in_fresh_process.

(* ---- the hypothesis is satisfiable (the tree's fopen_path), the seeded policy violates it and shows ---- *)
Example c15c_pinned_policy_restores : cwd_restoring pinned_cwd = true.
Proof. exact ApiGlobalCwdProofs.pinned_cwd_restores. Qed.
Example c15c_found_branch_without_chdir_does_not : cwd_restoring no_restore_on_found = false.
Proof. exact ApiGlobalCwdProofs.no_restore_on_found_does_not. Qed.
Example c15c_found_branch_without_chdir_observable :
  crun no_restore_on_found witness_fs 0 [CCompile None (Some [Rel 0]) [7]; CCompile (Some 9) None []]
  = ([CObs true [Some 1]; CObs false []], 1)
  /\ crun pinned_cwd witness_fs 0 [CCompile None (Some [Rel 0]) [7]; CCompile (Some 9) None []]
  = ([CObs true [Some 1]; CObs true []], 0).
Proof. exact ApiGlobalCwdProofs.no_restore_on_found_observable. Qed.
